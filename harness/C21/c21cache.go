//go:build verif

package pcache

import (
	"github.com/VKCOM/statshouse/internal/format"
	v "github.com/VKCOM/statshouse/internal/zzverif"
)

var c21Keys = []string{"a", "bb", "cccccccc", ""}

type c21Model struct {
	val map[string]int32 // the value each present string was added with
}

func c21Check(tag string, c *MappingsCache, prevSum int64) {
	var size, ts int64
	for k, e := range c.cache {
		size += elementSizeMem(k)
		ts += int64(e.accessTS)
	}
	v.Assert("C21.cache."+tag+".size_accounting_exact", c.sumSize == size)
	v.Assert("C21.cache."+tag+".access_time_accounting_exact", c.sumTS == ts)
	maxSize := c.maxSize.Load()
	v.Assert("C21.cache."+tag+".never_grows_beyond_configured_size", c.sumSize <= maxSize || c.sumSize <= prevSum)
	for _, e := range c.cache {
		v.Assert("C21.cache."+tag+".no_marker_values_stored", e.value != 0 && e.value != format.TagValueIDMappingFlood && e.value != format.TagValueIDDoesNotExist)
	}
	_, hasEmpty := c.cache[""]
	v.Assert("C21.cache."+tag+".no_empty_string_stored", !hasEmpty)
}

// up to `ops` operations from {AddValues (1..2 pairs, strings among a / bb / cccccccc / empty, arbitrary
// values including the marker values, distinct strings within a call), GetValue, RemoveByTTL} with an arbitrary
// non-decreasing clock on a cache with a small size limit: after every operation the size and
// access-time sums are exact, the cache never grows beyond its limit, no marker or empty string is
// stored, and GetValue returns exactly the value the string was added with.
func c21Run(ops int) {
	maxSize := []int64{40, 70, 200}[v.Choice(3)]
	c := NewMappingsCache(nil, maxSize, []int{0, 5}[v.Choice(2)])
	c.testMode = true
	c.deterministic = true
	m := c21Model{val: map[string]int32{}}
	now := v.NondetU32Range(100, 200)
	for o := 0; o < ops; o++ {
		now += v.NondetU32Range(0, 10)
		prev := c.sumSize
		switch v.Choice(3) {
		case 0:
			n := 1 + v.Choice(2)
			pairs := make([]MappingPair, n)
			for k := range pairs {
				pairs[k] = MappingPair{Str: c21Keys[v.Choice(len(c21Keys))], Value: v.NondetI32Range(-3, 50)}
			}
			// callers pass the aggregator's mappings, which it builds from a map: strings within one
			// call are distinct (a duplicate inside one call is double-counted by AddValues; noted in
			// DESIGN.md as an observation, outside the documented use)
			if n == 2 {
				v.Assume(pairs[0].Str != pairs[1].Str)
			}
			orig := append([]MappingPair(nil), pairs...)
			c.AddValues(now, pairs)
			// model: a string present after the call keeps its old value or got one offered in this call
			for k, e := range c.cache {
				if old, ok := m.val[k]; ok {
					v.Assert("C21.cache.add.existing_value_never_changes", e.value == old)
					continue
				}
				offered := false
				for _, p := range orig {
					if p.Str == k {
						offered = v.Or(offered, p.Value == e.value)
					}
				}
				v.Assert("C21.cache.add.new_entry_has_an_offered_value", offered)
			}
			m.val = map[string]int32{}
			for k, e := range c.cache {
				m.val[k] = e.value
			}
		case 1:
			k := c21Keys[v.Choice(3)]
			got, ok := c.GetValue(now, k)
			want, present := m.val[k]
			v.Assert("C21.cache.get.found_iff_present", ok == present)
			if ok {
				v.Assert("C21.cache.get.returns_value_added_for_that_string", got == want)
			}
		case 2:
			c.RemoveByTTL(10, now)
			for k := range m.val {
				if _, ok := c.cache[k]; !ok {
					delete(m.val, k)
				}
			}
			v.Assert("C21.cache.ttl.only_removes", len(c.cache) == len(m.val))
		}
		c21Check("op", c, prev)
	}
	v.Reach("C21.cache.end")
}

func Harness_C21_cache_2ops() { c21Run(2) }
func Harness_C21_cache_3ops() { c21Run(3) }
