//go:build verif

package data_model

import (
	v "github.com/VKCOM/statshouse/internal/zzverif"
)

const c21Magic = ChunkedMagicMappings

func c21WriteChunks(file *[]byte, chunks [][]byte) {
	w := NewChunkedStorage2Slice(file)
	// a fresh file: nothing to read
	if b, err := w.ReadNext(c21Magic); err != nil || len(b) != 0 {
		panic("fresh storage is not empty")
	}
	for _, data := range chunks {
		chunk := w.StartWriteChunk(c21Magic, 0)
		chunk = append(chunk, data...)
		if err := w.FinishWriteChunk(chunk); err != nil {
			panic("write: " + err.Error())
		}
	}
}

// 1..2 chunks of 1..3 arbitrary bytes are saved; the file is reloaded whole or truncated at an
// arbitrary length: the reader yields exactly the saved chunks, in order, byte for byte (whole file),
// or a prefix of the saved chunks followed by an error or a clean end (truncated file) - never a
// chunk with other bytes, never more chunks than saved. xxh3 is an uninterpreted function of the
// hashed bytes (equal bytes => equal hash), which is all that reloading an undamaged prefix needs.
func Harness_C21_storage_reload_and_truncate() {
	n := 1 + v.Choice(2)
	var chunks [][]byte
	for k := 0; k < n; k++ {
		chunks = append(chunks, v.NondetBytes(1+v.Choice(3)))
	}
	var file []byte
	c21WriteChunks(&file, chunks)
	full := len(file)
	want := 0
	for _, c := range chunks {
		want += chunkHeaderSize + len(c) + chunkHashSize
	}
	v.Assert("C21.storage.file_is_sum_of_framed_chunks", full == want)
	cut := v.Choice(full + 1) // bytes kept
	trunc := append([]byte(nil), file[:cut]...)
	r := NewChunkedStorage2Slice(&trunc)
	got := 0
	for {
		b, err := r.ReadNext(c21Magic)
		if err != nil {
			v.Assert("C21.storage.error_only_on_a_damaged_file", cut != full)
			break
		}
		if len(b) == 0 {
			break
		}
		v.Assert("C21.storage.never_more_chunks_than_saved", got < n)
		if got < n {
			same := len(b) == len(chunks[got])
			if same {
				for j := range b {
					same = v.And(same, b[j] == chunks[got][j])
				}
			}
			v.Assert("C21.storage.chunk_is_the_saved_one", same)
		}
		got++
	}
	if cut == full {
		v.Assert("C21.storage.whole_file_yields_all_chunks", got == n)
	}
	// complete chunks inside the kept prefix are all delivered
	off, whole := 0, 0
	onBoundary := cut == 0
	for _, c := range chunks {
		off += chunkHeaderSize + len(c) + chunkHashSize
		if off <= cut {
			whole++
		}
		if off == cut {
			onBoundary = true
		}
	}
	if onBoundary {
		v.Assert("C21.storage.prefix_of_whole_chunks", got == whole)
	}
	v.Assert("C21.storage.at_most_the_whole_chunks_in_the_prefix", got <= whole)
	v.Reach("C21.storage.end")
}

// Two saves through one storage object (what a long-running cache does: ResetToStartOfFile + chunks +
// FinishWriteChunk): the first save writes 1..2 chunks, the second 0..2 chunks of arbitrary bytes
// (possibly fewer and shorter, possibly equal to a prefix of the first). A reload of the file yields
// exactly the chunks of the LAST save - nothing of the earlier, longer save survives behind them.
func Harness_C21_storage_save_twice() {
	var file []byte
	w := NewChunkedStorage2Slice(&file)
	if b, err := w.ReadNext(c21Magic); err != nil || len(b) != 0 {
		panic("fresh storage is not empty")
	}
	save := func(chunks [][]byte) {
		w.ResetToStartOfFile()
		if len(chunks) == 0 {
			chunk := w.StartWriteChunk(c21Magic, 0)
			if err := w.FinishWriteChunk(chunk); err != nil {
				panic("write: " + err.Error())
			}
		}
		for _, data := range chunks {
			chunk := w.StartWriteChunk(c21Magic, 0)
			chunk = append(chunk, data...)
			if err := w.FinishWriteChunk(chunk); err != nil {
				panic("write: " + err.Error())
			}
		}
	}
	var first, second [][]byte
	for k, n := 0, 1+v.Choice(2); k < n; k++ {
		first = append(first, v.NondetBytes(1+v.Choice(2)))
	}
	for k, n := 0, v.Choice(3); k < n; k++ {
		second = append(second, v.NondetBytes(1+v.Choice(2)))
	}
	save(first)
	save(second)
	want := 0
	for _, c := range second {
		want += chunkHeaderSize + len(c) + chunkHashSize
	}
	v.Assert("C21.storage.twice.file_holds_only_the_last_save", len(file) == want)
	r := NewChunkedStorage2Slice(&file)
	got := 0
	for {
		b, err := r.ReadNext(c21Magic)
		v.Assert("C21.storage.twice.reload_clean", err == nil)
		if err != nil || len(b) == 0 {
			break
		}
		v.Assert("C21.storage.twice.never_more_chunks_than_last_save", got < len(second))
		if got < len(second) {
			same := len(b) == len(second[got])
			if same {
				for j := range b {
					same = v.And(same, b[j] == second[got][j])
				}
			}
			v.Assert("C21.storage.twice.chunk_is_from_the_last_save", same)
		}
		got++
	}
	v.Assert("C21.storage.twice.all_chunks_of_last_save", got == len(second))
	v.Reach("C21.storage.twice.end")
}

// Append after reading: a file with 1..2 saved chunks is opened, read to its end (each chunk comes back
// intact), then one more chunk is appended through the same storage object (no rewrite from the start),
// and the file is reopened: it yields the old chunks followed by the new one, byte for byte - the
// appended chunk is chained to the right predecessor.
func Harness_C21_storage_append_after_read() {
	var chunks [][]byte
	for k, n := 0, 1+v.Choice(2); k < n; k++ {
		chunks = append(chunks, v.NondetBytes(1+v.Choice(2)))
	}
	var file []byte
	c21WriteChunks(&file, chunks)
	// optionally a short garbage tail (too short for a chunk header): reported, and overwritten by the append
	garbage := v.Choice(3)
	for i := 0; i < garbage; i++ {
		file = append(file, v.NondetU8())
	}
	w := NewChunkedStorage2Slice(&file)
	got := 0
	for {
		b, err := w.ReadNext(c21Magic)
		if err != nil {
			v.Assert("C21.append.read_error_only_for_a_garbage_tail", garbage > 0 && got == len(chunks))
			break
		}
		if len(b) == 0 {
			break
		}
		got++
	}
	v.Assert("C21.append.all_saved_chunks_read", got == len(chunks))
	extra := v.NondetBytes(1 + v.Choice(2))
	chunk := w.StartWriteChunk(c21Magic, 0)
	chunk = append(chunk, extra...)
	v.Assert("C21.append.write_ok", w.FinishWriteChunk(chunk) == nil)
	all := append(append([][]byte(nil), chunks...), extra)
	r := NewChunkedStorage2Slice(&file)
	n := 0
	for {
		b, err := r.ReadNext(c21Magic)
		v.Assert("C21.append.reload_clean", err == nil)
		if err != nil || len(b) == 0 {
			break
		}
		v.Assert("C21.append.no_extra_chunks", n < len(all))
		if n < len(all) {
			same := len(b) == len(all[n])
			if same {
				for j := range b {
					same = v.And(same, b[j] == all[n][j])
				}
			}
			v.Assert("C21.append.chunk_identical", same)
		}
		n++
	}
	v.Assert("C21.append.old_chunks_then_the_appended_one", n == len(all))
	v.Reach("C21.append.end")
}
