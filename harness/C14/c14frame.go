//go:build verif

package compress

import (
	"github.com/VKCOM/statshouse/internal/data_model"
	v "github.com/VKCOM/statshouse/internal/zzverif"
)

// payloads of 0..12 arbitrary bytes (below LZ4's minimum match window, so the compressor emits
// literals only): the frame decompresses to the original bytes
func Harness_C14_frame_roundtrip() {
	n := v.Choice(13)
	p := v.NondetBytes(n)
	frame := CompressAndFrame(append([]byte(nil), p...))
	size, data, err := DeFrame(frame)
	v.Assert("C14.frame.deframe_ok", err == nil)
	v.Assert("C14.frame.size_field_is_original_length", int(size) == n)
	out, err := Decompress(size, data)
	v.Assert("C14.frame.decompress_ok", err == nil)
	same := len(out) == n
	if same {
		for j := range p {
			same = v.And(same, out[j] == p[j])
		}
	}
	v.Assert("C14.frame.roundtrip_identity", same)
	v.Reach("C14.frame.end")
}

// undersized and oversized frames are rejected, arbitrary compressed bytes never panic and never
// yield a result of another length than announced (pure-Go LZ4 decoder, build tag noasm)
func Harness_C14_frame_rejects() {
	n := v.Choice(7) // 0..6 bytes: size field + up to 2 bytes of compressed data
	frame := v.NondetBytes(n)
	size, data, err := DeFrame(frame)
	if n < 4 {
		v.Assert("C14.frame.short_frame_rejected", err != nil)
		v.Reach("C14.frame.rejects.end")
		return
	}
	v.Assert("C14.frame.deframe_ok", err == nil && len(data) == n-4)
	if size > data_model.MaxUncompressedBucketSize {
		if int(size) != len(data) {
			_, err := Decompress(size, data)
			v.Assert("C14.frame.oversized_rejected", err != nil)
		}
		v.Reach("C14.frame.rejects.end")
		return
	}
	v.Assume(size <= 16) // decoder explored for announced sizes up to 16 bytes
	out, err := Decompress(size, data)
	if err == nil {
		v.Assert("C14.frame.result_has_announced_size", uint32(len(out)) == size)
	}
	v.Reach("C14.frame.rejects.end")
}
