//go:build verif

package compress

import (
	"github.com/VKCOM/statshouse/internal/data_model"
	v "github.com/VKCOM/statshouse/internal/zzverif"
)

// payloads of 0..12 arbitrary bytes (below LZ4's minimum match window, so the compressor emits
// literals only): the frame decompresses to the original bytes
func Harness_C14_frame_roundtrip() {
	n := v.Choice(13)
	p := v.NondetBytes(n)
	frame := CompressAndFrame(append([]byte(nil), p...))
	size, data, err := DeFrame(frame)
	v.Assert("C14.frame.deframe_ok", err == nil)
	v.Assert("C14.frame.size_field_is_original_length", int(size) == n)
	out, err := Decompress(size, data)
	v.Assert("C14.frame.decompress_ok", err == nil)
	same := len(out) == n
	if same {
		for j := range p {
			same = v.And(same, out[j] == p[j])
		}
	}
	v.Assert("C14.frame.roundtrip_identity", same)
	v.Reach("C14.frame.end")
}

// undersized and oversized frames are rejected, arbitrary compressed bytes never panic and never
// yield a result of another length than announced (pure-Go LZ4 decoder, build tag noasm)
func Harness_C14_frame_rejects() {
	n := v.Choice(7) // 0..6 bytes: size field + up to 2 bytes of compressed data
	frame := v.NondetBytes(n)
	size, data, err := DeFrame(frame)
	if n < 4 {
		v.Assert("C14.frame.short_frame_rejected", err != nil)
		v.Reach("C14.frame.rejects.end")
		return
	}
	v.Assert("C14.frame.deframe_ok", err == nil && len(data) == n-4)
	if size > data_model.MaxUncompressedBucketSize {
		if int(size) != len(data) {
			_, err := Decompress(size, data)
			v.Assert("C14.frame.oversized_rejected", err != nil)
		}
		v.Reach("C14.frame.rejects.end")
		return
	}
	v.Assume(size <= 16) // decoder explored for announced sizes up to 16 bytes
	out, err := Decompress(size, data)
	if err == nil {
		v.Assert("C14.frame.result_has_announced_size", uint32(len(out)) == size)
	}
	v.Reach("C14.frame.rejects.end")
}

// ---- the framing decision for ANY compressor output ----
// The LZ4 codec itself is replaced by a model pair: the compressor returns an arbitrary block of an
// arbitrary length (0..len+2 bytes: shorter than, as long as, or longer than the input) and the
// decompressor returns the original exactly for that block. What is decided is the frame format
// around it: it has no "stored raw" flag - a payload as long as the announced size is taken as raw
// bytes - so the writer must never frame a compressed block whose length equals the input's.

var c14Model struct {
	src   []byte
	block []byte
}

func C14CompressHC(src, dst []byte, depth int) (int, error) {
	m := v.Choice(len(src) + 3)
	c14Model.src = append([]byte(nil), src...)
	c14Model.block = c14Model.block[:0]
	for i := 0; i < m; i++ {
		b := v.NondetU8()
		dst[i] = b
		c14Model.block = append(c14Model.block, b)
	}
	return m, nil
}

func C14Uncompress(src, dst []byte) (int, error) {
	same := len(src) == len(c14Model.block)
	if same {
		for i := range src {
			same = v.And(same, src[i] == c14Model.block[i])
		}
	}
	if !same || len(dst) < len(c14Model.src) {
		return 0, errC14
	}
	return copy(dst, c14Model.src), nil
}

var errC14 = errorString("c14: not the block the compressor produced")

type errorString string

func (e errorString) Error() string { return string(e) }

func Harness_C14_frame_any_compressor() {
	n := v.Choice(4)
	p := v.NondetBytes(n)
	frame := CompressAndFrame(append([]byte(nil), p...))
	size, data, err := DeFrame(frame)
	v.Assert("C14.frame.any.deframe_ok", err == nil && int(size) == n)
	out, err := Decompress(size, data)
	v.Assert("C14.frame.any.decompress_ok", err == nil)
	same := len(out) == n
	if same {
		for j := range p {
			same = v.And(same, out[j] == p[j])
		}
	}
	v.Assert("C14.frame.any.roundtrip_identity", same)
	if len(c14Model.block) == n && n > 0 {
		v.Reach("C14.frame.any.block_as_long_as_input")
	}
	v.Reach("C14.frame.any.end")
}
