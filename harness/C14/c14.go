//go:build verif

package internal

import (
	"github.com/VKCOM/statshouse/internal/vkgo/basictl"
	v "github.com/VKCOM/statshouse/internal/zzverif"
)

// ---- models standing in for basictl.Random*: arbitrary values of the field type (full range,
// floats as raw bits), strings of 0..2 bytes, vectors of 0..1 elements, four field-mask patterns

type c14Rand struct{}

func (c14Rand) Uint32() uint32       { return 2 }
func (c14Rand) Int31() int32         { return 0 }
func (c14Rand) Int63() int64         { return 0 }
func (c14Rand) NormFloat64() float64 { return 0 }

func c14RG() *basictl.RandGenerator { return basictl.NewRandGenerator(c14Rand{}) }

func C14RandomUint(rg *basictl.RandGenerator) uint32   { return v.NondetU32() }
func C14RandomSize(rg *basictl.RandGenerator) uint32   { return uint32(v.Choice(2)) }
func C14RandomByte(rg *basictl.RandGenerator) byte     { return v.NondetU8() }
func C14RandomInt(rg *basictl.RandGenerator) int32     { return v.NondetI32() }
func C14RandomLong(rg *basictl.RandGenerator) int64    { return v.NondetI64() }
func C14RandomUint64(rg *basictl.RandGenerator) uint64 { return v.NondetU64() }
func C14RandomFloat(rg *basictl.RandGenerator) float32 { return v.NondetF32() }
func C14RandomDouble(rg *basictl.RandGenerator) float64 {
	return v.NondetF64()
}
// field masks: none, all, even bits, odd bits - every optional field is present in two of the four and
// absent in two (a fully symbolic mask forks once per bit: 2^18 paths for statshouse.multiValue alone)
func c14Nat() uint32 { return []uint32{0, 0xffffffff, 0x55555555, 0xaaaaaaaa}[v.Choice(4)] }

func C14RandomFieldMask(rg *basictl.RandGenerator, bitMask uint32) uint32 {
	return c14Nat() & bitMask
}
// strings inside messages: one arbitrary byte (padding 2); the length classes of the string codec
// itself (0..4, 253..256 bytes) are covered by Harness_C14_string_codec
func C14RandomString(rg *basictl.RandGenerator) string      { return v.NondetString(1) }
func C14RandomStringBytes(rg *basictl.RandGenerator) []byte { return v.NondetBytes(1) }

// basictl.StringWrite / StringRead over every length class: tiny (0..4 bytes, each padding amount),
// the 253/254 boundary between the 1-byte and 4-byte length prefix, 255, 256
func Harness_C14_string_codec() {
	n := []int{0, 1, 2, 3, 4, 252, 253, 254, 255, 256}[v.Choice(10)]
	b := make([]byte, n)
	for i := range b {
		b[i] = 'x'
	}
	if n > 0 {
		b[0] = v.NondetU8()
		b[n-1] = v.NondetU8()
	}
	s := string(b)
	w := basictl.StringWrite(nil, s)
	v.Assert("C14.string.length_is_multiple_of_4", len(w)%4 == 0)
	var back string
	rest, err := basictl.StringRead(w, &back)
	v.Assert("C14.string.reads_back", err == nil && len(rest) == 0 && back == s)
	var backB []byte
	rest, err = basictl.StringReadBytes(w, &backB)
	v.Assert("C14.string.bytes_variant_reads_the_same", err == nil && len(rest) == 0 && string(backB) == s)
	wb := basictl.StringWriteBytes(nil, b)
	same := len(wb) == len(w)
	if same {
		for j := range w {
			same = v.And(same, w[j] == wb[j])
		}
	}
	v.Assert("C14.string.bytes_variant_writes_the_same", same)
	v.Reach("C14.string.end")
}

func c14CheckRead(t string, err error, rest []byte) {
	v.Assert("C14."+t+".reads_back_what_it_wrote", err == nil)
	if err == nil {
		v.Assert("C14."+t+".no_bytes_left_over", len(rest) == 0)
	}
}

func c14CheckSame(t string, w, w2 []byte) {
	same := len(w) == len(w2)
	if same {
		for j := range w {
			same = v.And(same, w[j] == w2[j])
		}
	}
	v.Assert("C14."+t+".rewritten_bytes_identical", same)
	v.Assert("C14."+t+".length_is_multiple_of_4", len(w)%4 == 0)
}

func c14CheckBoxed(t string, bare, boxed []byte) {
	ok := len(boxed) == len(bare)+4
	if ok {
		for j := range bare {
			ok = v.And(ok, bare[j] == boxed[j+4])
		}
	}
	v.Assert("C14."+t+".boxed_is_tag_plus_bare", ok)
}

// every generated type with FillRandom + WriteTL1 + ReadTL1, split into slices so that the
// harnesses run in parallel budgets
func c14Range(lo, hi int) {
	n := len(c14Types)
	if hi > n {
		hi = n
	}
	if lo >= hi {
		v.Reach("C14.end")
		return
	}
	c14Case(lo + v.Choice(hi-lo))
	v.Reach("C14.end")
}

// the generator lists statshouse.* types first (without statshouseApi.*), then metadata.*, then
// statshouseApi.*, then the rest (engine, vectors, ...); c14Counts holds the sizes of the first three groups
func Harness_C14_tl1_statshouse_a() { c14Range(0, c14Counts[0]/2) }
func Harness_C14_tl1_statshouse_b() { c14Range(c14Counts[0]/2, c14Counts[0]) }
func Harness_C14_tl1_metadata()     { c14Range(c14Counts[0], c14Counts[0]+c14Counts[1]) }
func Harness_C14_tl1_api() {
	c14Range(c14Counts[0]+c14Counts[1], c14Counts[0]+c14Counts[1]+c14Counts[2])
}
func Harness_C14_tl1_rest() { c14Range(c14Counts[0]+c14Counts[1]+c14Counts[2], len(c14Types)) }
