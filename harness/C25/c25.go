//go:build verif

package api

import (
	v "github.com/VKCOM/statshouse/internal/zzverif"
)

// limitQueries against its definition: the result is the first `limit` in-window rows in
// traversal order, and has-more is set exactly when an in-window row beyond the limit exists.
func Harness_C25_limitQueries() {
	const groups = 2
	fromEnd := v.NondetBool()
	var from, to RowMarker
	from.Time = v.NondetIntRange(0, 4) // 0 = no marker
	to.Time = v.NondetIntRange(0, 4)
	limit := int(v.NondetIntRange(-1, 3)) // <= 0: no room left, only has-more is wanted
	rowsByTime := make([][]tsSelectRow, groups)
	for g := 0; g < groups; g++ {
		n := v.Choice(3) // 0..2 rows in the group
		for k := 0; k < n; k++ {
			var r tsSelectRow
			r.time = v.NondetIntRange(1, 4)
			r.tag[0] = int64(g*2 + k) // distinguishes rows
			rowsByTime[g] = append(rowsByTime[g], r)
		}
	}
	res, hasMore := limitQueries(rowsByTime, from, to, fromEnd, limit)

	// reference: flatten in traversal order, keep in-window rows
	var ref []tsSelectRow
	for i := range rowsByTime {
		if fromEnd {
			i = len(rowsByTime) - i - 1
		}
		for _, r := range rowsByTime[i] {
			if inRange(r, from, to, fromEnd) {
				ref = append(ref, r)
			}
		}
	}
	want := len(ref)
	if want > limit {
		want = limit
	}
	if want < 0 {
		want = 0
	}
	v.Assert("C25.limit.len", len(res) == want)
	v.Assert("C25.limit.respected", len(res) <= limit || len(res) == 0)
	same := len(res) == want
	for i := 0; same && i < want; i++ {
		if res[i].time != ref[i].time || res[i].tag[0] != ref[i].tag[0] {
			same = false
		}
	}
	v.Assert("C25.limit.rows_are_first_in_window", same)
	for i := range res {
		v.Assert("C25.limit.window", inRange(res[i], from, to, fromEnd))
	}
	v.Assert("C25.limit.has_more_exact", hasMore == (len(ref) > limit && len(ref) > 0))
	v.Reach("C25.limit.end")
}
