//go:build verif

package api

import (
	"context"
	"time"

	"github.com/VKCOM/statshouse/internal/data_model"
	"github.com/VKCOM/statshouse/internal/format"
	"github.com/VKCOM/statshouse/internal/promql"
	v "github.com/VKCOM/statshouse/internal/zzverif"
)

// getTableFromLODs over two adjacent levels of detail [100,200) and [200,300) with a loader that
// returns 0..2 rows per level (arbitrary seconds inside the level - its first second included - and an
// arbitrary tag 1 in 0..3), from/to row markers absent or at an arbitrary second 99..301 with tag 1 in
// 0..3, forward and from-the-end paging, room for every row: the table holds exactly the rows inside
// the marker window (each once, none outside, whichever level they live in), in paging order, and
// has-more stays off.
func Harness_C25_table_two_lods() { c25Table(false) }

// the same with eight functions (count, min, max, sum, avg, stddev, cardinality, unique - more than one
// storage pass) and a row limit of 2..5 or 100: when the limit leaves room for every in-window row, all
// of them are present, has-more stays off, and every row carries one column per function
func Harness_C25_table_two_passes() { c25Table(true) }

func c25Table(twoPasses bool) {
	loc := time.UTC
	p := tableReqParams{
		req: seriesRequest{
			numResults: 100,
			what:       []promql.SelectorWhat{{Digest: promql.DigestCount}},
		},
		metricMeta:     &format.MetricMetaValue{},
		desiredStepMul: 1,
		location:       loc,
	}
	if twoPasses {
		p.req.what = []promql.SelectorWhat{{Digest: promql.DigestCount}, {Digest: promql.DigestMin}, {Digest: promql.DigestMax}, {Digest: promql.DigestSum},
			{Digest: promql.DigestAvg}, {Digest: promql.DigestStdDev}, {Digest: promql.DigestCardinality}, {Digest: promql.DigestUnique}}
		p.req.numResults = []int{2, 3, 4, 5, 100}[v.Choice(5)]
	}
	p.req.fromEnd = v.NondetBool()
	marker := func() RowMarker {
		var m RowMarker
		if v.NondetBool() {
			m.Time = v.NondetIntRange(99, 301)
			m.Tags = []RawTag{{Index: 1, Value: v.NondetIntRange(0, 3)}}
		}
		return m
	}
	p.req.fromRow = marker()
	p.req.toRow = marker()
	lods := []data_model.LOD{
		{FromSec: 100, ToSec: 200, StepSec: 1, Location: loc},
		{FromSec: 200, ToSec: 300, StepSec: 1, Location: loc},
	}
	var all []tsSelectRow
	var perLod [2][][]tsSelectRow
	for l := 0; l < 2; l++ {
		n := v.Choice(3)
		var prev int64 = int64(100*(l+1)) - 1
		for k := 0; k < n; k++ {
			var r tsSelectRow
			r.time = v.NondetIntRange(int64(100*(l+1)), int64(100*(l+2))-1)
			v.Assume(r.time > prev) // storage returns one group per second, ascending
			prev = r.time
			r.tag[1] = v.NondetIntRange(0, 3)
			r.count = 1
			all = append(all, r)
			perLod[l] = append(perLod[l], []tsSelectRow{r})
		}
	}
	loads := 0
	load := func(_ context.Context, _ *requestHandler, _ *queryBuilder, lod data_model.LOD, _ bool) ([][]tsSelectRow, error) {
		loads++
		if lod.FromSec == 100 {
			return perLod[0], nil
		}
		return perLod[1], nil
	}
	h := &requestHandler{Handler: &Handler{HandlerOptions: HandlerOptions{location: loc}}}
	rows, hasMore, err := h.getTableFromLODs(context.Background(), lods, p, load)
	v.Assert("C25.table.no_error", err == nil)
	if twoPasses {
		inWindow := 0
		for _, r := range all {
			inWindow += v.B2I(inRange(r, p.req.fromRow, p.req.toRow, p.req.fromEnd))
		}
		v.Assume(inWindow <= p.req.numResults) // room for every in-window row
		for _, q := range rows {
			v.Assert("C25.table.one_column_per_function", len(q.Data) == 8)
		}
	}
	want := 0
	for _, r := range all {
		in := inRange(r, p.req.fromRow, p.req.toRow, p.req.fromEnd)
		cnt := 0
		for _, q := range rows {
			cnt += v.B2I(v.And(q.Time == r.time, q.row.tag[1] == r.tag[1]))
		}
		if in {
			want++
			v.Assert("C25.table.row_inside_window_present_once", cnt == 1)
		} else {
			v.Assert("C25.table.row_outside_window_absent", cnt == 0)
		}
	}
	v.Assert("C25.table.nothing_else", len(rows) == want)
	v.Assert("C25.table.has_more_off_when_everything_fits", !hasMore)
	for i := 1; i < len(rows); i++ {
		if p.req.fromEnd {
			v.Assert("C25.table.paging_order", rows[i-1].Time >= rows[i].Time)
		} else {
			v.Assert("C25.table.paging_order", rows[i-1].Time <= rows[i].Time)
		}
	}
	if want == 2 {
		v.Reach("C25.table.two_rows")
	}
	v.Reach("C25.table.end")
}
