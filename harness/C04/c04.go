//go:build verif

package data_model

import (
	"bytes"

	v "github.com/VKCOM/statshouse/internal/zzverif"
	"pgregory.net/rand"
)

// ---------------------------------------------------------------- values and hosts

func c04Host() TagUnion { return TagUnion{I: v.NondetI32Range(0, 3)} }

// an arbitrary contribution: counter in [0,1024], optional value part with integer aggregates
func c04ItemValue() ItemValue {
	var it ItemValue
	it.counter = v.NondetFloatInt(0, 1024)
	it.MaxCounterHostTag = c04Host()
	if v.NondetBool() {
		it.ValueSet = true
		it.ValueMin = v.NondetFloatInt(-32768, 32768)
		it.ValueMax = v.NondetFloatInt(-32768, 32768)
		v.Assume(it.ValueMin <= it.ValueMax)
		it.ValueSum = v.NondetFloatInt(-1<<30, 1<<30)
		it.ValueSumSquare = v.NondetFloatInt(0, 1<<40)
		it.MinHostTag = c04Host()
		it.MaxHostTag = c04Host()
	}
	return it
}

func c04CheckHosts(tag string, r *ItemValue, in []ItemValue) {
	if r.ValueSet {
		okMin, okMax := false, false
		for k := range in {
			okMin = v.Or(okMin, v.And(in[k].ValueSet, v.And(in[k].ValueMin == r.ValueMin, in[k].MinHostTag.I == r.MinHostTag.I)))
			okMax = v.Or(okMax, v.And(in[k].ValueSet, v.And(in[k].ValueMax == r.ValueMax, in[k].MaxHostTag.I == r.MaxHostTag.I)))
		}
		v.Assert("C04.value."+tag+".min_host_contributed_min", okMin)
		v.Assert("C04.value."+tag+".max_host_contributed_max", okMax)
	}
	if r.counter > 0 {
		ok := false
		for k := range in {
			ok = v.Or(ok, v.And(in[k].counter > 0, in[k].MaxCounterHostTag.I == r.MaxCounterHostTag.I))
		}
		v.Assert("C04.value."+tag+".max_count_host_contributed", ok)
	}
}

// orders compared with the left fold ((a+b)+c): the five other permutations and the other grouping a+(b+c)
func c04Alt(rng *rand.Rand, in []ItemValue) ItemValue {
	perms := [][3]int{{0, 2, 1}, {1, 0, 2}, {1, 2, 0}, {2, 0, 1}, {2, 1, 0}}
	k := v.Choice(len(perms) + 1)
	if k == len(perms) {
		z := in[0]
		g := in[1]
		c2 := in[2]
		g.Merge(rng, &c2)
		z.Merge(rng, &g)
		return z
	}
	var y ItemValue
	for _, j := range perms[k] {
		c := in[j]
		y.Merge(rng, &c)
	}
	return y
}

// Value part: three contributions (counter 1, same host, so the counter part takes no random
// draw) merged in every order and in the other grouping: count, sum, sum of squares, min, max
// agree exactly (integer-valued inputs); min/max hosts contributed the extreme.
func Harness_C04_itemvalue_merge_order() {
	rng := rand.New()
	in := []ItemValue{c04ItemValue(), c04ItemValue(), c04ItemValue()}
	for k := range in {
		in[k].counter = 1
		in[k].MaxCounterHostTag = TagUnion{I: 1}
	}
	var x ItemValue
	for k := range in {
		c := in[k]
		x.Merge(rng, &c)
	}
	y := c04Alt(rng, in)
	v.Assert("C04.value.count", x.counter == y.counter)
	v.Assert("C04.value.valueset", x.ValueSet == y.ValueSet)
	if x.ValueSet {
		v.Assert("C04.value.sum", x.ValueSum == y.ValueSum)
		v.Assert("C04.value.sumsq", x.ValueSumSquare == y.ValueSumSquare)
		v.Assert("C04.value.min", x.ValueMin == y.ValueMin)
		v.Assert("C04.value.max", x.ValueMax == y.ValueMax)
	}
	v.Assert("C04.value.valueset_iff_any", x.ValueSet == v.Or(in[0].ValueSet, v.Or(in[1].ValueSet, in[2].ValueSet)))
	if x.ValueSet {
		lower, attained, upper, attainedMax := true, false, true, false
		sum, sumsq := 0.0, 0.0
		for k := range in {
			lower = v.And(lower, v.Implies(in[k].ValueSet, x.ValueMin <= in[k].ValueMin))
			attained = v.Or(attained, v.And(in[k].ValueSet, x.ValueMin == in[k].ValueMin))
			upper = v.And(upper, v.Implies(in[k].ValueSet, x.ValueMax >= in[k].ValueMax))
			attainedMax = v.Or(attainedMax, v.And(in[k].ValueSet, x.ValueMax == in[k].ValueMax))
			if in[k].ValueSet {
				sum += in[k].ValueSum
				sumsq += in[k].ValueSumSquare
			}
		}
		v.Assert("C04.value.min_is_min", v.And(lower, attained))
		v.Assert("C04.value.max_is_max", v.And(upper, attainedMax))
		v.Assert("C04.value.sum_is_total", x.ValueSum == sum)
		v.Assert("C04.value.sumsq_is_total", x.ValueSumSquare == sumsq)
	}
	c04CheckHosts("fold", &x, in)
	c04CheckHosts("alt", &y, in)
	v.Reach("C04.value.end")
}

// Counter part: three counters (count 0..1024, hosts 0..3) merged in every order / grouping:
// the total count is the same and the max-count host is a host that contributed a positive
// count, for every outcome of the random draws.
func Harness_C04_counter_merge_order() {
	rng := rand.New()
	in := make([]ItemValue, 3)
	for k := range in {
		in[k].counter = v.NondetFloatInt(0, 1024)
		in[k].MaxCounterHostTag = c04Host()
	}
	var x ItemValue
	for k := range in {
		c := in[k]
		x.Merge(rng, &c)
	}
	y := c04Alt(rng, in)
	v.Assert("C04.counter.count_order_independent", x.counter == y.counter)
	v.Assert("C04.counter.count_is_total", x.counter == in[0].counter+in[1].counter+in[2].counter)
	c04CheckHosts("cfold", &x, in)
	c04CheckHosts("calt", &y, in)
	v.Reach("C04.counter3.end")
}

// min/max over arbitrary (non-NaN) doubles, compare-only: order of two merges does not matter
func Harness_C04_itemvalue_minmax_f64() {
	rng := rand.New()
	mk := func() ItemValue {
		var it ItemValue
		it.counter = 1
		it.ValueSet = true
		it.ValueMin = v.NondetF64()
		it.ValueMax = v.NondetF64()
		v.Assume(it.ValueMin == it.ValueMin) // not NaN
		v.Assume(it.ValueMax == it.ValueMax)
		v.Assume(it.ValueMin <= it.ValueMax)
		return it
	}
	a, b, c := mk(), mk(), mk()
	x := a
	x.Merge(rng, &b)
	x.Merge(rng, &c)
	y := c
	y.Merge(rng, &a)
	y.Merge(rng, &b)
	v.Assert("C04.f64.min", x.ValueMin == y.ValueMin)
	v.Assert("C04.f64.max", x.ValueMax == y.ValueMax)
	v.Assert("C04.f64.min_lower", v.And(x.ValueMin <= a.ValueMin, v.And(x.ValueMin <= b.ValueMin, x.ValueMin <= c.ValueMin)))
	v.Assert("C04.f64.max_upper", v.And(x.ValueMax >= a.ValueMax, v.And(x.ValueMax >= b.ValueMax, x.ValueMax >= c.ValueMax)))
	v.Reach("C04.f64.end")
}

// ItemCounter.AddCounterHost agrees with Merge of a one-host counter: same count, host among contributors
func Harness_C04_counter_add_vs_merge() {
	rng := rand.New()
	var s1, s2 ItemCounter
	s1.counter = v.NondetFloatInt(0, 1024)
	s1.MaxCounterHostTag = c04Host()
	s2 = s1
	cnt := v.NondetFloatInt(-4, 1024)
	h := c04Host()
	s1.AddCounterHost(rng, cnt, h)
	s2.Merge(rng, ItemCounter{counter: cnt, MaxCounterHostTag: h})
	v.Assert("C04.counter.add_eq_merge_count", s1.counter == s2.counter)
	v.Reach("C04.counter.end")
}

// ---------------------------------------------------------------- unique sketch as a set

// sketch decoded from agent-supplied bytes through the public decoder (the state an aggregator
// reaches from the wire): skip degree sd, n non-zero items, optional zero item.
func c04Sketch(sd uint32, n int, zero bool) (ChUnique, []uint32) {
	items := make([]uint32, n)
	var buf []byte
	buf = append(buf, byte(sd))
	cnt := n
	if zero {
		cnt++
	}
	buf = append(buf, byte(cnt))
	if zero {
		buf = append(buf, 0, 0, 0, 0)
	}
	for k := range items {
		x := v.NondetU32()
		// home bucket (bits 15..18 at the initial table size 16) from a small set that still
		// gives equal, adjacent and wrap-around neighbours; every other bit is arbitrary
		pl := []uint32{0, 1, 15}[v.Choice(3)]
		v.Assume((x>>uniquesHashBitsForSkip)&15 == pl)
		v.Assume(x != 0)
		v.Assume(x == (x>>sd)<<sd) // well formed: good for its own degree
		for j := 0; j < k; j++ {
			v.Assume(items[j] != x) // a serialized sketch lists distinct items
		}
		items[k] = x
		buf = append(buf, byte(x), byte(x>>8), byte(x>>16), byte(x>>24))
	}
	var ch ChUnique
	if err := ch.UmMarshall(bytes.NewBuffer(buf)); err != nil {
		panic("c04Sketch: " + err.Error())
	}
	return ch, items
}

func c04Contains(ch *ChUnique, x uint32) bool {
	in := false
	for i := 0; i < ch.bufSize(); i++ {
		in = v.Or(in, ch.buf[i] == x)
	}
	return in
}

func c04NonZero(ch *ChUnique) int {
	n := 0
	for i := 0; i < ch.bufSize(); i++ {
		n += v.B2I(ch.buf[i] != 0)
	}
	return n
}

// result of a merge must be exactly { x in A u B : x divisible by 2^max(sa,sb) } with degree max
func c04CheckMerged(tag string, r *ChUnique, ia, ib []uint32, sa, sb uint32, zero bool) {
	sd := sa
	if sb > sd {
		sd = sb
	}
	v.Assert("C04.unique."+tag+".skip_degree_is_max", r.skipDegree == sd)
	all := append(append([]uint32{}, ia...), ib...)
	want := 0
	for k, x := range all {
		good := x == (x>>sd)<<sd
		v.Assert("C04.unique."+tag+".member_iff_good", c04Contains(r, x) == good)
		dup := false
		for j := 0; j < k; j++ {
			dup = v.Or(dup, all[j] == x)
		}
		want += v.B2I(v.And(good, v.Not(dup)))
	}
	nz := c04NonZero(r)
	v.Assert("C04.unique."+tag+".no_foreign_or_duplicate_items", nz == want)
	v.Assert("C04.unique."+tag+".zero_item", r.hasZeroItem == zero)
	v.Assert("C04.unique."+tag+".items_count", int(r.itemsCount) == nz+v.B2I(zero))
	// every stored item can be found again by probing from its place (no holes in its chain)
	for i := 0; i < r.bufSize(); i++ {
		x := r.buf[i]
		if x == 0 {
			continue
		}
		p := r.place(x)
		for p != i {
			v.Assert("C04.unique."+tag+".probe_chain_unbroken", r.buf[p] != 0)
			p = (p + 1) & r.mask()
		}
	}
}

func c04UniqueMerge(na, nb int, maxSD uint32, zeros bool) {
	sa := uint32(v.Choice(int(maxSD) + 1))
	sb := uint32(v.Choice(int(maxSD) + 1))
	za, zb := false, false
	if zeros {
		za, zb = v.NondetBool(), v.NondetBool()
	}
	a, ia := c04Sketch(sa, na, za)
	b, ib := c04Sketch(sb, nb, zb)
	zero := za || zb
	// one merge per path (the three forms are alternatives, not a sequence): equal item sets
	// and equal itemsCount for all three give equal Size(), i.e. the estimate commutes
	var r ChUnique
	var tag string
	switch v.Choice(3) {
	case 0:
		tag = "a_merge_b"
		r = a
		r.Merge(b)
	case 1:
		tag = "b_merge_a"
		r = b
		r.Merge(a)
	default:
		// the wire form used on the aggregator (MergeRead of marshalled bytes)
		tag = "a_mergeread_b"
		r = a
		if err := r.MergeRead(bytes.NewBuffer(b.MarshallAppend(nil))); err != nil {
			panic("MergeRead: " + err.Error())
		}
	}
	c04CheckMerged(tag, &r, ia, ib, sa, sb, zero)
	sd := max(sa, sb)
	v.Assert("C04.unique."+tag+".size_is_count_times_2^degree", r.Size(true) == uint64(r.itemsCount)<<sd)
	v.Reach("C04.unique.end")
}

func c04SketchCopy(ch *ChUnique) ChUnique {
	c := *ch
	c.buf = append([]uint32(nil), ch.buf...)
	return c
}

func Harness_C04_unique_merge_1x1() { c04UniqueMerge(1, 1, 2, true) }
func Harness_C04_unique_merge_2x1() { c04UniqueMerge(2, 1, 1, false) }
func Harness_C04_unique_merge_2x2() { c04UniqueMerge(2, 2, 1, false) }
func Harness_C04_unique_merge_2x2_deg2() { c04UniqueMerge(2, 2, 2, true) }
func Harness_C04_unique_merge_3x2()      { c04UniqueMerge(3, 2, 1, false) }
