//go:build verif

package agent

import (
	"sync"

	"github.com/VKCOM/statshouse/internal/data_model"
	"github.com/VKCOM/statshouse/internal/format"
	v "github.com/VKCOM/statshouse/internal/zzverif"
	"pgregory.net/rand"
)

// Shard.ApplyValues (the agent's entry for an accepted value/histogram event) for a 1-second metric:
// 0..2 plain values from {2, 6}, 0..2 histogram entries (value 10, arbitrary weight 1..16), at least one of
// either (the caller's precondition), counter
// absent (0) or an arbitrary 1..16, legacy switch on/off. The row written into the shard's bucket counts
// one event per value plus the histogram weights when the counter is absent, and exactly the counter
// when it is present; with an absent counter the sum is the plain sum plus value x weight.
func Harness_C12_shard_apply_values() {
	cur := uint32(1_700_000_000)
	s := &Shard{CurrentTime: cur, SendTime: cur}
	for i := range s.SuperQueue {
		s.SuperQueue[i] = &data_model.MetricsBucket{}
	}
	s.cond = sync.NewCond(&s.mu)
	s.rng = rand.New()
	s.config.StringTopCapacity = 10
	s.config.LegacyApplyValues = v.NondetBool()
	meta := &format.MetricMetaValue{MetricID: 7, EffectiveResolution: 1}
	nv := v.Choice(3)
	var values []float64
	sumV := 0.0
	for i := 0; i < nv; i++ {
		x := []float64{2, 6}[v.Choice(2)]
		values = append(values, x)
		sumV += x
	}
	nh := v.Choice(3)
	var hist [][2]float64
	total := float64(nv)
	sumH := 0.0
	for i := 0; i < nh; i++ {
		w := v.NondetFloatInt(1, 16)
		hist = append(hist, [2]float64{10, w})
		total += w
		sumH += 10 * w
	}
	v.Assume(nv+nh > 0) // ApplyMetric calls ApplyValues only for events with values or histogram entries
	count := 0.0
	if v.NondetBool() {
		count = v.NondetFloatInt(1, 16)
	}
	key := &data_model.Key{Timestamp: cur, Metric: 7}
	s.ApplyValues(key, 0, hist, values, count, data_model.TagUnion{}, meta, 0)
	rows, cnt, sum := 0, 0.0, 0.0
	for _, b := range s.SuperQueue {
		for _, it := range b.MultiItemMap.MultiItems {
			rows++
			cnt += it.Tail.Value.Count()
			sum += it.Tail.Value.ValueSum
		}
	}
	v.Assert("C12.shard.one_row", rows == 1)
	if count == 0 {
		v.Assert("C12.shard.absent_counter_counts_values_and_histogram_weights", cnt == total)
		v.Assert("C12.shard.absent_counter_sum_is_values_plus_weighted_histogram", sum == sumV+sumH)
		if nh > 0 {
			v.Reach("C12.shard.histogram_without_counter")
		}
	} else {
		v.Assert("C12.shard.present_counter_is_the_count", cnt == count)
	}
	v.Reach("C12.shard.end")
}
