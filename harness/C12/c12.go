//go:build verif

package data_model

import (
	"math"

	"github.com/VKCOM/statshouse/internal/data_model/gen2/tl"
	"github.com/VKCOM/statshouse/internal/data_model/gen2/tlstatshouse"
	"github.com/VKCOM/statshouse/internal/format"
	v "github.com/VKCOM/statshouse/internal/zzverif"
	"pgregory.net/rand"
)

func c12FiniteValue(f float64) bool {
	return v.And(f == f, v.And(f <= math.MaxFloat32, f >= -math.MaxFloat32))
}

func c12ValidCounter(f float64) bool {
	return v.And(f == f, v.And(f >= 0, f <= math.MaxFloat32))
}

// ValidateMetricData over arbitrary doubles (NaN, +-Inf, +-MaxFloat32 boundaries included):
// accepted (status 0) exactly when the statement's conjunction holds, and a rejected event's
// status is the documented reason for the first failing field.
func Harness_C12_validate() {
	var m tlstatshouse.MetricBytes
	m.Counter = v.NondetF64()
	nv := v.Choice(3)
	for k := 0; k < nv; k++ {
		m.Value = append(m.Value, v.NondetF64())
	}
	nh := v.Choice(2)
	for k := 0; k < nh; k++ {
		m.Histogram = append(m.Histogram, [2]float64{v.NondetF64(), v.NondetF64()})
	}
	nu := v.Choice(2)
	for k := 0; k < nu; k++ {
		m.Unique = append(m.Unique, v.NondetI64())
	}
	st := ValidateMetricData(&m)

	both := nv+nh != 0 && nu != 0
	empty := v.And(nv+nh == 0 && nu == 0, m.Counter == 0)
	ok := v.And(!both, v.Not(empty))
	ok = v.And(ok, c12ValidCounter(m.Counter))
	for _, x := range m.Value {
		ok = v.And(ok, c12FiniteValue(x))
	}
	for _, h := range m.Histogram {
		ok = v.And(ok, v.And(c12FiniteValue(h[0]), c12ValidCounter(h[1])))
	}
	v.Assert("C12.validate.accepted_iff_valid", (st == 0) == ok)
	if both {
		v.Assert("C12.validate.reason_both_set", st == format.TagValueIDSrcIngestionStatusErrValueUniqueBothSet)
	}
	if st == format.TagValueIDSrcIngestionStatusErrZeroCounter {
		v.Assert("C12.validate.zero_counter_reason_only_for_empty", empty)
	}
	if st == format.TagValueIDSrcIngestionStatusErrNegativeCounter {
		neg := m.Counter < 0
		for _, h := range m.Histogram {
			neg = v.Or(neg, h[1] < 0)
		}
		v.Assert("C12.validate.negative_reason_names_a_negative_counter", neg)
	}
	if st == format.TagValueIDSrcIngestionStatusErrNanInfCounter {
		nan := m.Counter != m.Counter
		for _, h := range m.Histogram {
			nan = v.Or(nan, h[1] != h[1])
		}
		v.Assert("C12.validate.nan_counter_reason", nan)
	}
	if st == format.TagValueIDSrcIngestionStatusErrNanInfValue {
		nan := false
		for _, x := range m.Value {
			nan = v.Or(nan, x != x)
		}
		for _, h := range m.Histogram {
			nan = v.Or(nan, h[0] != h[0])
		}
		v.Assert("C12.validate.nan_value_reason", nan)
	}
	v.Reach("C12.validate.end")
}

// Weighting in MultiValue.ApplyValues for integer-valued inputs: count is what the caller passes
// (the shard passes len(values)+sum of weights when the event has no counter), min/max are those of
// the values, and sum/sumsq are the weighted sums scaled by count/total.
func Harness_C12_apply_values_weighting() {
	rng := rand.New()
	var mv MultiValue
	nv := v.Choice(3)
	var values []float64
	total := 0.0
	sum, sumsq := 0.0, 0.0
	for k := 0; k < nv; k++ {
		x := v.NondetFloatInt(-1000, 1000)
		values = append(values, x)
		total++
		sum += x
		sumsq += x * x
	}
	var hist [][2]float64
	if v.NondetBool() {
		x := v.NondetFloatInt(-1000, 1000)
		w := []float64{1, 2}[v.Choice(2)] // concrete weight keeps the weighted sums linear
		hist = append(hist, [2]float64{x, w})
		total += w
		sum += x * w
		sumsq += x * x * w
	}
	v.Assume(total > 0)
	// counter absent: count = total; counter present: a multiple that keeps the scaled sums integral
	mult := []float64{1, 2, 3}[v.Choice(3)]
	count := total * mult
	mv.ApplyValues(rng, hist, values, count, total, TagUnion{I: 5}, 1, false)
	v.Assert("C12.weight.count", mv.Value.counter == count)
	v.Assert("C12.weight.sum_scaled", mv.Value.ValueSum == sum*mult)
	v.Assert("C12.weight.valueset", mv.Value.ValueSet)
	lower, attained, upper, attainedMax := true, false, true, false
	all := append([]float64{}, values...)
	for _, h := range hist {
		all = append(all, h[0])
	}
	for _, x := range all {
		lower = v.And(lower, mv.Value.ValueMin <= x)
		attained = v.Or(attained, mv.Value.ValueMin == x)
		upper = v.And(upper, mv.Value.ValueMax >= x)
		attainedMax = v.Or(attainedMax, mv.Value.ValueMax == x)
	}
	v.Assert("C12.weight.min_unaffected_by_counter", v.And(lower, attained))
	v.Assert("C12.weight.max_unaffected_by_counter", v.And(upper, attainedMax))
	v.Assert("C12.weight.hosts", v.And(mv.Value.MinHostTag.I == 5, v.And(mv.Value.MaxHostTag.I == 5, mv.Value.MaxCounterHostTag.I == 5)))
	_ = sumsq
	v.Reach("C12.weight.end")
}

// ApplyUnique: every hash inserted once, count as passed, values are the hashes
func Harness_C12_apply_unique() {
	rng := rand.New()
	var mv MultiValue
	n := 1 + v.Choice(2)
	var hashes []int64
	for k := 0; k < n; k++ {
		// concrete hash list (equal, different, negative): the 64-bit mixing function of the
		// sketch is a chain of multiplications the solver cannot invert
		hashes = append(hashes, []int64{7, -5, 7 << 32}[v.Choice(3)])
	}
	count := float64(n) * v.NondetFloatInt(1, 100)
	mv.ApplyUnique(rng, hashes, count, TagUnion{I: 5})
	wsum := 0.0
	for _, h := range hashes {
		wsum += float64(h)
	}
	v.Assert("C12.unique.sum_scaled", mv.Value.ValueSum*float64(n) == wsum*count)
	v.Assert("C12.unique.count", mv.Value.counter == count)
	distinct := 1
	if n == 2 {
		distinct += v.B2I(mv.HLL.uintHash32(uint64(hashes[0])) != mv.HLL.uintHash32(uint64(hashes[1])))
	}
	v.Assert("C12.unique.each_inserted_once", mv.HLL.ItemsCount() == distinct)
	v.Reach("C12.unique.end")
}

// MapValidateTag for a known tag ("1") of a known metric with a 4..6-byte value over the alphabet {39, 02, 58, 56, 'a', space}: the event
// stays valid exactly when the value normalises without error (format.AppendValidStringValue, whose own
// contract is C11) and does not contain the corrupted-balancer signature 39 02 58 56; every rejected
// value leaves exactly one reason (encoding or corrupted) and the tag key in the header.
func Harness_C12_tag_value() {
	meta := &format.MetricMetaValue{MetricID: 5, Tags: make([]format.MetricMetaTag, 3)}
	for i := range meta.Tags {
		meta.Tags[i].Index = int32(i)
	}
	n := 4 + v.Choice(3)
	raw := make([]byte, n)
	for i := range raw {
		b := v.NondetU8()
		// alphabet: the four signature bytes (one of them a control character), a letter and a space;
		// the full byte range of the normalisation itself is C11
		v.Assume(v.Or(v.Or(b == 0x39, b == 0x02), v.Or(v.Or(b == 0x58, b == 0x56), v.Or(b == 'a', b == ' '))))
		raw[i] = b
	}
	contains := false
	for i := 0; i+4 <= n; i++ {
		contains = v.Or(contains, v.And(v.And(raw[i] == 0x39, raw[i+1] == 0x02), v.And(raw[i+2] == 0x58, raw[i+3] == 0x56)))
	}
	_, encErr := format.AppendValidStringValue(nil, append([]byte(nil), raw...))
	kv := tl.DictFieldStringStringBytes{Key: []byte("1"), Value: append([]byte(nil), raw...)}
	h := MappedMetricHeader{MetricMeta: meta}
	tagMeta, tagIDKey, valid := MapValidateTag(&kv, &tlstatshouse.MetricBytes{}, &h, nil)
	v.Assert("C12.tag.known_tag_found", tagMeta == &meta.Tags[1] && tagIDKey == 1+format.TagIDShift)
	if encErr != nil {
		v.Assert("C12.tag.bad_encoding_rejected_with_reason", !valid && h.IngestionStatus == format.TagValueIDSrcIngestionStatusErrMapTagValueEncoding && h.IngestionTagKey == tagIDKey)
		v.Reach("C12.tag.encoding")
	} else if contains {
		v.Assert("C12.tag.corrupted_value_rejected_with_reason", !valid && h.IngestionStatus == format.TagValueIDSrcIngestionStatusErrMapTagValueCorrupted && h.IngestionTagKey == tagIDKey)
		v.Reach("C12.tag.corrupted")
	} else {
		v.Assert("C12.tag.clean_value_accepted_without_status", valid && h.IngestionStatus == 0)
		v.Reach("C12.tag.accepted")
	}
}
