//go:build verif

package format

import (
	"unicode/utf8"

	v "github.com/VKCOM/statshouse/internal/zzverif"
)

// forceProps: ForceValidStringValue(s) is valid, short, fixes valid input, idempotent,
// and strict normalisation agrees with it exactly on valid UTF-8.
func c11ForceProps(b []byte) {
	s := string(b)
	f := ForceValidStringValue(s)
	v.Assert("C11.force.valid", ValidStringValue(f))
	v.Assert("C11.force.len", len(f) <= MaxStringLen)
	if ValidStringValue(s) {
		v.Assert("C11.force.identity_on_valid", f == s)
	}
	ff := ForceValidStringValue(f)
	v.Assert("C11.force.idempotent", ff == f)

	// bytes variant agrees with the string variant
	fb := ForceValidStringValueBytes(append([]byte(nil), b...))
	v.Assert("C11.force.bytes_variant", string(fb) == f)

	// strict variant: error iff invalid UTF-8; otherwise equals forcing
	dst, err := AppendValidStringValue(nil, b)
	if utf8.Valid(b) {
		v.Assert("C11.strict.no_error_on_valid_utf8", err == nil)
		if err == nil {
			v.Assert("C11.strict.agrees_with_force", string(dst) == f)
		}
	} else {
		v.Assert("C11.strict.error_on_invalid_utf8", err != nil)
	}
}

func Harness_C11_force_len0to2() {
	n := v.Choice(3)
	b := v.NondetBytes(n)
	c11ForceProps(b)
	v.Reach("C11.force.end")
}

func Harness_C11_force_len0to3() {
	n := v.Choice(4)
	b := v.NondetBytes(n)
	c11ForceProps(b)
	v.Reach("C11.force.end")
}

func Harness_C11_force_len4() {
	b := v.NondetBytes(4)
	c11ForceProps(b)
	v.Reach("C11.force.end")
}

func Harness_C11_force_len5() {
	b := v.NondetBytes(5)
	c11ForceProps(b)
	v.Reach("C11.force.end")
}

// The maxLen cut: ASCII prefix of 124..127 bytes followed by 4..6 arbitrary bytes, so that the
// last rune straddles byte 128.
func Harness_C11_force_cut() {
	pre := 123 + v.Choice(6) // 123..128
	tail := 1 + v.Choice(5)  // 1..5
	b := make([]byte, 0, pre+tail)
	for i := 0; i < pre; i++ {
		b = append(b, 'a')
	}
	b = append(b, v.NondetBytes(tail)...)
	s := string(b)
	f := ForceValidStringValue(s)
	v.Assert("C11.cut.valid", ValidStringValue(f))
	v.Assert("C11.cut.len", len(f) <= MaxStringLen)
	if ValidStringValue(s) {
		v.Assert("C11.cut.identity_on_valid", f == s)
	}
	v.Assert("C11.cut.idempotent", ForceValidStringValue(f) == f)
	v.Reach("C11.cut.end")
}
