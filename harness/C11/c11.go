//go:build verif

package format

import (
	"unicode/utf8"

	v "github.com/VKCOM/statshouse/internal/zzverif"
)

// forceProps: ForceValidStringValue(s) is valid, short, fixes valid input, idempotent,
// and strict normalisation agrees with it exactly on valid UTF-8.
func c11ForceProps(b []byte) {
	s := string(b)
	f := ForceValidStringValue(s)
	v.Assert("C11.force.valid", ValidStringValue(f))
	v.Assert("C11.force.len", len(f) <= MaxStringLen)
	if ValidStringValue(s) {
		v.Assert("C11.force.identity_on_valid", f == s)
	}
	ff := ForceValidStringValue(f)
	v.Assert("C11.force.idempotent", ff == f)

	// bytes variant agrees with the string variant
	fb := ForceValidStringValueBytes(append([]byte(nil), b...))
	v.Assert("C11.force.bytes_variant", string(fb) == f)

	// strict variant: error iff invalid UTF-8; otherwise equals forcing
	dst, err := AppendValidStringValue(nil, b)
	if utf8.Valid(b) {
		v.Assert("C11.strict.no_error_on_valid_utf8", err == nil)
		if err == nil {
			v.Assert("C11.strict.agrees_with_force", string(dst) == f)
		}
	} else {
		v.Assert("C11.strict.error_on_invalid_utf8", err != nil)
	}
}

func Harness_C11_force_len0to2() {
	n := v.Choice(3)
	b := v.NondetBytes(n)
	c11ForceProps(b)
	v.Reach("C11.force.end")
}

func Harness_C11_force_len0to3() {
	n := v.Choice(4)
	b := v.NondetBytes(n)
	c11ForceProps(b)
	v.Reach("C11.force.end")
}

func Harness_C11_force_len4() {
	b := v.NondetBytes(4)
	c11ForceProps(b)
	v.Reach("C11.force.end")
}

func Harness_C11_force_len5() {
	b := v.NondetBytes(5)
	c11ForceProps(b)
	v.Reach("C11.force.end")
}

// The maxLen cut: ASCII prefix of 124..127 bytes followed by 4..6 arbitrary bytes, so that the
// last rune straddles byte 128.
func Harness_C11_force_cut() {
	pre := 123 + v.Choice(6) // 123..128
	tail := 1 + v.Choice(5)  // 1..5
	b := make([]byte, 0, pre+tail)
	for i := 0; i < pre; i++ {
		b = append(b, 'a')
	}
	b = append(b, v.NondetBytes(tail)...)
	s := string(b)
	f := ForceValidStringValue(s)
	v.Assert("C11.cut.valid", ValidStringValue(f))
	v.Assert("C11.cut.len", len(f) <= MaxStringLen)
	if ValidStringValue(s) {
		v.Assert("C11.cut.identity_on_valid", f == s)
	}
	v.Assert("C11.cut.idempotent", ForceValidStringValue(f) == f)
	v.Reach("C11.cut.end")
}

// The 128-byte cut with a 2-byte symbolic window: 126..128 ASCII bytes (optionally starting with a
// space, which forces the slow path and a trim), 2 arbitrary bytes, then "b": a multi-byte rune may
// straddle byte 128. Forcing yields a valid value of at most 128 bytes, idempotent; strict
// normalisation errs exactly on invalid UTF-8 and otherwise equals forcing.
func Harness_C11_cut_2bytes() {
	pre := 126 + v.Choice(3)
	b := make([]byte, 0, pre+3)
	first := byte('a')
	if v.NondetBool() {
		first = ' '
	}
	b = append(b, first)
	for i := 1; i < pre; i++ {
		b = append(b, 'a')
	}
	b = append(b, v.NondetBytes(2)...)
	b = append(b, 'b')
	s := string(b)
	f := ForceValidStringValue(s)
	v.Assert("C11.cut2.valid", ValidStringValue(f))
	v.Assert("C11.cut2.len", len(f) <= MaxStringLen)
	v.Assert("C11.cut2.idempotent", ForceValidStringValue(f) == f)
	dst, err := AppendValidStringValue(nil, b)
	if utf8.Valid(b) {
		v.Assert("C11.cut2.strict_no_error_on_valid_utf8", err == nil)
		if err == nil {
			v.Assert("C11.cut2.strict_agrees_with_force", string(dst) == f)
		}
	}
	// invalid bytes after the 128-byte cut are never looked at, so they need not be reported: the
	// statement only says that strict normalisation fails ONLY on invalid UTF-8
	v.Reach("C11.cut2.end")
}

// ---------------------------------------------------------------- raw tag values

// decimal text of |x| with d digits (x known to have exactly d digits), most significant first
func c11Digits(x int64, d int) []byte {
	out := make([]byte, d)
	for k := d - 1; k >= 0; k-- {
		out[k] = byte('0' + x%10)
		x /= 10
	}
	return out
}

var c11Pow10 = []int64{1, 10, 100, 1000, 10000, 100000, 1000000, 10000000, 100000000, 1000000000, 10000000000, 100000000000}

// 32-bit raw tags: every integer with 1..11 digits, optional sign, 0..2 leading zeros: accepted
// exactly when it lies in [-2^31, 2^32-1], and the stored bit pattern decodes back to it.
func Harness_C11_raw32() {
	d := 1 + v.Choice(11)
	lo := c11Pow10[d-1]
	if d == 1 {
		lo = 0
	}
	mag := v.NondetIntRange(lo, c11Pow10[d]-1)
	neg := v.NondetBool()
	var s []byte
	if neg {
		s = append(s, '-')
	} else if v.NondetBool() {
		s = append(s, '+')
	}
	for z := v.Choice(3); z > 0; z-- {
		s = append(s, '0')
	}
	s = append(s, c11Digits(mag, d)...)
	got, ok := ContainsRawTagValueBytes(s)
	val := mag
	if neg {
		val = -mag
	}
	inRange := v.And(val >= -(1<<31), val <= 1<<32-1)
	v.Assert("C11.raw32.accepted_iff_in_range", ok == inRange)
	if ok {
		// bit pattern: int32 for negatives, uint32 otherwise
		if neg {
			v.Assert("C11.raw32.decodes_back_signed", int64(got) == val)
		} else {
			v.Assert("C11.raw32.decodes_back_unsigned", int64(uint32(got)) == val)
		}
	}
	v.Reach("C11.raw32.end")
}

// junk is rejected: empty string, lone sign, a non-digit byte anywhere in a 1..3 byte string
func Harness_C11_raw_junk() {
	n := v.Choice(4)
	s := v.NondetBytes(n)
	_, ok := ContainsRawTagValueBytes(s)
	_, _, ok64 := ContainsRawTagValue64Bytes(s)
	allDigits := n > 0
	start := 0
	if n > 0 && (s[0] == '-' || s[0] == '+') {
		start = 1
		allDigits = n > 1
	}
	for k := start; k < n; k++ {
		if !(s[k] >= '0' && s[k] <= '9') {
			allDigits = false
		}
	}
	v.Assert("C11.raw.junk32_accepted_iff_decimal", ok == allDigits)
	plus := n > 0 && s[0] == '+'
	if !plus { // the 64-bit variant routes "+..." through ParseUint, which has no sign: rejected
		v.Assert("C11.raw.junk64_accepted_iff_decimal", ok64 == allDigits)
	}
	v.Reach("C11.raw.junk.end")
}

// 64-bit raw tags: a concrete prefix around the interesting magnitudes followed by 2 arbitrary digits
// (all-symbolic 20-digit numbers make the wrap-around arithmetic of the parser too hard for the
// solver), optional minus: accepted exactly when the number is in [-2^63, 2^64-1] (decided on the
// digit string), and lo/hi recombine to it.
func Harness_C11_raw64() {
	prefix := []string{"", "1", "184467440737095516", "184467440737095517", "92233720368547758", "92233720368547759", "99999999999999999", "1844674407370955161"}[v.Choice(8)]
	neg := v.NondetBool()
	d := len(prefix) + 2
	digits := make([]byte, d)
	copy(digits, prefix)
	for k := len(prefix); k < d; k++ {
		digits[k] = byte(v.NondetIntRange('0', '9'))
	}
	v.Assume(d == 1 || digits[0] != '0')
	limit := "18446744073709551615"
	if neg {
		limit = "9223372036854775808"
	}
	// |value| <= limit, compared as digit strings
	fits := d < len(limit)
	if d == len(limit) {
		le, eq := false, true
		for k := 0; k < d; k++ {
			le = v.Or(le, v.And(eq, digits[k] < limit[k]))
			eq = v.And(eq, digits[k] == limit[k])
		}
		fits = v.Or(le, eq)
	}
	var s []byte
	if neg {
		s = append(s, '-')
	}
	s = append(s, digits...)
	lo, hi, ok := ContainsRawTagValue64Bytes(s)
	v.Assert("C11.raw64.accepted_iff_in_range", ok == fits)
	if ok {
		var mag uint64
		for k := 0; k < d; k++ {
			mag = mag*10 + uint64(digits[k]-'0')
		}
		bits := uint64(uint32(lo)) + uint64(uint32(hi))*4294967296 // + and * instead of | and <<: stays integer arithmetic for the solver
		if neg {
			v.Assert("C11.raw64.decodes_back_signed", bits == -mag)
		} else {
			v.Assert("C11.raw64.decodes_back_unsigned", bits == mag)
		}
	}
	v.Reach("C11.raw64.end")
}
