//go:build verif

package api

import (
	"strings"

	"github.com/VKCOM/statshouse/internal/data_model"
	v "github.com/VKCOM/statshouse/internal/zzverif"
)

// ClickHouse string-literal scanner: outside a literal ' opens one; inside, backslash escapes the
// next byte and ' closes. Returns the decoded literals, the text outside literals, and whether the
// text ends outside a literal with no dangling escape.
func c26Scan(s string) (lits []string, outside string, ok bool) {
	var cur []byte
	var out []byte
	in := false
	for i := 0; i < len(s); i++ {
		c := s[i]
		if !in {
			if c == '\'' {
				in = true
				cur = cur[:0]
				out = append(out, '?')
			} else {
				out = append(out, c)
			}
			continue
		}
		if c == '\\' {
			if i+1 >= len(s) {
				return nil, "", false
			}
			i++
			cur = append(cur, s[i])
			continue
		}
		if c == '\'' {
			in = false
			lits = append(lits, string(cur))
			continue
		}
		cur = append(cur, c)
	}
	return lits, string(out), !in
}

// an arbitrary user string of 0..2 bytes (quote, backslash, NUL, newline ... all included)
func c26Str(maxLen int) string { return v.NondetString(v.Choice(maxLen + 1)) }

// One tag filter (tag 1) with 1..2 values of every kind - unset/empty value, mapped id, unmapped
// user string, mapped + string - or a regular expression, as inclusion or exclusion filter.
// The generated clause must scan as well-formed text; every user string must appear as exactly one
// literal that decodes to the original bytes, in order; the text outside literals is the one the
// same filter produces for benign strings (so user bytes never reach it).
func c26Filter(nValues int, withRe2 bool) {
	b := &queryBuilder{}
	lod := &data_model.LOD{}
	var f, benign data_model.TagFilters
	var want []string
	for k := 0; k < nValues; k++ {
		switch v.Choice(4) {
		case 0:
			f.Tags[1].Values = append(f.Tags[1].Values, data_model.NewTagValue("", 0))
			benign.Tags[1].Values = append(benign.Tags[1].Values, data_model.NewTagValue("", 0))
		case 1:
			f.Tags[1].Values = append(f.Tags[1].Values, data_model.NewTagValueM(5))
			benign.Tags[1].Values = append(benign.Tags[1].Values, data_model.NewTagValueM(5))
		case 2:
			s := c26Str(2)
			f.Tags[1].Values = append(f.Tags[1].Values, data_model.NewTagValueS(s))
			benign.Tags[1].Values = append(benign.Tags[1].Values, data_model.NewTagValueS("x"))
			want = append(want, s)
		case 3:
			s := c26Str(2)
			v.Assume(len(s) > 0) // ("", 0) would be the empty value, covered by case 0
			f.Tags[1].Values = append(f.Tags[1].Values, data_model.NewTagValue(s, 7))
			benign.Tags[1].Values = append(benign.Tags[1].Values, data_model.NewTagValue("x", 7))
			want = append(want, s)
		}
	}
	if withRe2 {
		re := c26Str(2)
		v.Assume(len(re) > 0)
		f.Tags[1].Re2 = re
		benign.Tags[1].Re2 = "x"
		want = []string{re} // with a regular expression the string values are not written
	}
	op := filterOperatorIn
	if v.NondetBool() {
		op = filterOperatorNotIn
	}
	var sb, sbBenign strings.Builder
	err := b.writeTagFilter(&sb, lod, f, op, buildSeriesQuery)
	err2 := b.writeTagFilter(&sbBenign, lod, benign, op, buildSeriesQuery)
	v.Assert("C26.no_error", err == nil && err2 == nil)
	lits, outside, ok := c26Scan(sb.String())
	_, outsideBenign, okBenign := c26Scan(sbBenign.String())
	v.Assert("C26.clause_is_well_formed", ok && okBenign)
	// the empty-value branch writes one constant '' literal of its own
	got := lits[:0:0]
	for _, l := range lits {
		got = append(got, l)
	}
	hasEmptyLit := 0
	for _, val := range f.Tags[1].Values {
		if val.Empty() {
			hasEmptyLit = 1
		}
	}
	v.Assert("C26.literal_count", len(got) == len(want)+hasEmptyLit)
	for k := range want {
		if k < len(got) {
			v.Assert("C26.literal_decodes_to_user_string", got[k] == want[k])
		}
	}
	if hasEmptyLit == 1 && len(got) == len(want)+1 {
		v.Assert("C26.empty_clause_literal_is_empty", got[len(got)-1] == "")
	}
	v.Assert("C26.text_outside_literals_is_free_of_user_bytes", outside == outsideBenign)
	// parentheses balance outside literals
	depth, minDepth := 0, 0
	for i := 0; i < len(outside); i++ {
		switch outside[i] {
		case '(':
			depth++
		case ')':
			depth--
		}
		if depth < minDepth {
			minDepth = depth
		}
	}
	v.Assert("C26.parentheses_balanced", depth == 0 && minDepth == 0)
	v.Reach("C26.end")
}

func Harness_C26_filter_1value()     { c26Filter(1, false) }
func Harness_C26_filter_2values()    { c26Filter(2, false) }
func Harness_C26_filter_re2()        { c26Filter(1, true) }

// a filter that consists of a regular expression only (no values): it is still written
func Harness_C26_filter_re2_only() { c26Filter(0, true) }
func Harness_C26_filter_3values()    { c26Filter(3, false) }
