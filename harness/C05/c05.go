//go:build verif

package data_model

import (
	"math"

	"github.com/VKCOM/statshouse/internal/format"
	v "github.com/VKCOM/statshouse/internal/zzverif"
	"pgregory.net/rand"
)

type c05Row struct {
	item    *MultiItem
	size    int
	whale   float64
	metric  int32
	kept    int
	dropped int
	sfAtSel float64 // sf handed to SelectF together with this row (0 = never passed to SelectF)
	inSel   bool
	selKept bool
}

type c05State struct {
	rows     []*c05Row
	selCalls int
}

func (st *c05State) find(it *MultiItem) *c05Row {
	for _, r := range st.rows {
		if r.item == it {
			return r
		}
	}
	panic("c05: unknown item")
}

// n rows over 2 metrics (weights 1..3, optional no-sample-agent flag on metric 1), sizes from {0,1,3,8} (concrete: the sample factor divides the budget by the summed size, and a symbolic divisor is beyond the solver),
// whale weights 0..100, budget 1..256; SelectF is a model returning an arbitrary prefix length
// (every outcome of the random selector at once) and records what it was handed.
func c05Run(n int, oneMetric bool, flags bool) {
	st := &c05State{}
	metas := []*format.MetricMetaValue{
		{MetricID: 1, EffectiveWeight: 1},
		{MetricID: 2, EffectiveWeight: 1},
	}
	if !oneMetric {
		metas[0].EffectiveWeight = int64(1 + v.Choice(3))
		metas[1].EffectiveWeight = int64(1 + v.Choice(3))
	}
	modeAgent, disableNoSample := false, false
	if flags {
		modeAgent = v.NondetBool()
		disableNoSample = v.NondetBool()
		metas[0].NoSampleAgent = v.NondetBool()
	}
	cfg := SamplerConfig{
		ModeAgent:            modeAgent,
		DisableNoSampleAgent: disableNoSample,
		SampleKeepSingle:     false,
		Rand:                 rand.New(),
		KeepF: func(it *MultiItem, ts uint32, quota uint32) {
			st.find(it).kept++
		},
		DiscardF: func(it *MultiItem, ts uint32) {
			st.find(it).dropped++
		},
		SampleFactorF: func(metricID int32, sf float64) {},
		RoundF: func(b float64, r *rand.Rand) float64 {
			return math.Floor(b)
		},
	}
	// the group being sampled, recorded on entry to sampler.sample: the selector must be handed
	// sf = sumSize*denom/budget (both clamped to >= 1), doubled when whales were set aside, and
	// floor(len/sf/2) rows (the whales) must have been kept before
	var curNum, curDen int64
	var curLen int
	cfg.SampleF = func(s *sampler, g samplerGroup) {
		curNum, curDen, curLen = g.budgetDenom*g.sumSize, g.budget, len(g.items)
		if curNum < 1 {
			curNum = 1
		}
		if curDen < 1 {
			curDen = 1
		}
		s.sample(g)
	}
	cfg.SelectF = func(items []SamplingMultiItemPair, sf float64, r *rand.Rand) int {
		st.selCalls++
		want := float64(curNum) / float64(curDen)
		whales := int(int64(curLen) * curDen / curNum / 2)
		if whales > curLen {
			whales = curLen
		}
		if whales > 0 {
			want *= 2
		}
		v.Assert("C05.selector_factor_is_size_over_budget", sf == want)
		v.Assert("C05.whale_count_is_half_the_kept_share", len(items) == curLen-whales)
		pos := int(v.NondetIntRange(0, int64(len(items))))
		for i := range items {
			row := st.find(items[i].Item)
			row.inSel = true
			row.sfAtSel = sf
			row.selKept = i < pos
		}
		return pos
	}
	h := NewSampler(cfg)
	total := 0
	for i := 0; i < n; i++ {
		m := 0
		if !oneMetric {
			m = v.Choice(2)
		}
		row := &c05Row{item: &MultiItem{MetricMeta: metas[m]}, size: []int{0, 1, 3, 8}[v.Choice(4)], whale: v.NondetFloatInt(0, 100), metric: metas[m].MetricID}
		st.rows = append(st.rows, row)
		total += row.size
		h.Add(SamplingMultiItemPair{Item: row.item, WhaleWeight: row.whale, Size: row.size, MetricID: row.metric, BucketTs: 1000})
	}
	budget := v.NondetIntRange(0, 256)
	h.Run(budget)

	for _, r := range st.rows {
		v.Assert("C05.each_row_kept_or_discarded_exactly_once", r.kept+r.dropped == 1)
		if r.size < 1 {
			v.Assert("C05.empty_row_discarded", r.dropped == 1)
			continue
		}
		if r.inSel {
			// passed through the random selector: kept iff selected, and kept and discarded alike carry
			// exactly the factor the selector worked with (= inverse keep probability)
			v.Assert("C05.selected_iff_kept", (r.kept == 1) == r.selKept)
			v.Assert("C05.row_carries_selector_factor", r.item.SF == r.sfAtSel)
		} else {
			// never subject to random selection: kept unconditionally, factor 1
			v.Assert("C05.unconditional_rows_kept", r.kept == 1)
			v.Assert("C05.unconditional_rows_factor_1", r.item.SF == 1)
		}
		if r.metric == 1 && metas[0].NoSampleAgent && modeAgent && !disableNoSample {
			v.Assert("C05.no_sample_agent_metric_always_kept_with_1", v.And(r.kept == 1, r.item.SF == 1))
		}
	}
	// whales: a row of a sampled metric kept without selection is at least as heavy as every row of
	// the same metric that went through selection
	for _, a := range st.rows {
		if a.inSel || a.size < 1 {
			continue
		}
		for _, b := range st.rows {
			if b.inSel && b.metric == a.metric {
				v.Assert("C05.whales_are_the_heaviest", a.whale >= b.whale)
			}
		}
	}
	// C06: the whole bucket fits the budget => nothing is sampled
	if int64(total) <= budget {
		for _, r := range st.rows {
			if r.size >= 1 {
				v.Assert("C06.fits_budget_nothing_sampled", v.And(r.kept == 1, r.item.SF == 1))
			}
		}
		v.Assert("C06.fits_budget_selector_not_called", st.selCalls == 0)
	}
	// C06: a metric within its weight-proportional share of the bucket budget is kept entirely with 1
	if !oneMetric {
		for m := 0; m < 2; m++ {
			sz, present := 0, false
			for _, r := range st.rows {
				if r.metric == metas[m].MetricID && r.size >= 1 {
					sz += r.size
					present = true
				}
			}
			otherPresent := false
			for _, r := range st.rows {
				if r.metric != metas[m].MetricID && r.size >= 1 {
					otherPresent = true
				}
			}
			sumW := metas[m].EffectiveWeight
			if otherPresent {
				sumW += metas[1-m].EffectiveWeight
			}
			if present && int64(sz)*sumW <= budget*metas[m].EffectiveWeight {
				for _, r := range st.rows {
					if r.metric == metas[m].MetricID && r.size >= 1 {
						v.Assert("C06.within_share_kept_with_1", v.And(r.kept == 1, r.item.SF == 1))
					}
				}
			}
		}
	}
	v.Reach("C05.end")
}

func Harness_C05_one_metric_3rows()  { c05Run(3, true, false) }
func Harness_C05_one_metric_4rows()  { c05Run(4, true, false) }
func Harness_C05_two_metrics_2rows() { c05Run(2, false, true) }
func Harness_C05_two_metrics_3rows() { c05Run(3, false, false) }

// selectRandom: returns a prefix length within bounds, leaves the rows a permutation, keeps
// everything for sf <= 1
func Harness_C05_selectRandom() {
	r := rand.New()
	n := v.Choice(4)
	items := make([]SamplingMultiItemPair, n)
	its := make([]*MultiItem, n)
	for i := range items {
		its[i] = &MultiItem{}
		items[i].Item = its[i]
	}
	sf := v.NondetF64()
	v.Assume(sf == sf)
	got := selectRandom(items, sf, r)
	v.Assert("C05.select.count_in_range", got >= 0 && got <= n)
	if sf <= 1 {
		v.Assert("C05.select.keeps_all_for_sf_le_1", got == n)
	}
	for _, it := range its {
		cnt := 0
		for i := range items {
			if items[i].Item == it {
				cnt++
			}
		}
		v.Assert("C05.select.permutation", cnt == 1)
	}
	v.Reach("C05.select.end")
}

// SampleFactor (second pass): a metric without a factor is kept with 1; otherwise kept rows carry
// exactly the stored factor
func Harness_C05_SampleFactor() {
	r := rand.New()
	sf := v.NondetF64()
	v.Assume(sf >= 1)
	m := map[int32]float64{5: sf}
	got, keep := SampleFactor(r, m, 5)
	if keep {
		v.Assert("C05.second_pass.kept_carries_factor", got == sf)
	}
	got2, keep2 := SampleFactor(r, m, 6)
	v.Assert("C05.second_pass.unlisted_kept_with_1", keep2 && got2 == 1)
	v.Reach("C05.second_pass.end")
}

// ---------------------------------------------------------------- C06 kernels

// sampleQuota: budgets handed back are floor(budget*size/total), hence proportional to the reported
// sizes (monotone), sum to at most the budget, and a row is discarded only when its quota is 0
func c06Quota(n int) {
	st := &c05State{}
	quotas := map[*MultiItem]uint32{}
	cfg := SamplerConfig{
		Rand: rand.New(),
		KeepF: func(it *MultiItem, ts uint32, quota uint32) {
			st.find(it).kept++
			quotas[it] = quota
		},
		DiscardF:      func(it *MultiItem, ts uint32) { st.find(it).dropped++ },
		SampleFactorF: func(metricID int32, sf float64) {},
		SampleF:       SampleQuota,
	}
	h := NewSampler(cfg)
	meta := &format.MetricMetaValue{MetricID: 1, EffectiveWeight: 1}
	total := int64(0)
	for i := 0; i < n; i++ {
		row := &c05Row{item: &MultiItem{MetricMeta: meta}, size: []int{1, 3, 8, 200}[v.Choice(4)], metric: 1}
		st.rows = append(st.rows, row)
		total += int64(row.size)
		h.Add(SamplingMultiItemPair{Item: row.item, Size: row.size, MetricID: 1, BucketTs: 1000})
	}
	budget := v.NondetIntRange(1, 50000)
	v.Assume(budget < total) // otherwise nothing is sampled and no quota is computed
	h.Run(budget)
	sum := int64(0)
	for _, r := range st.rows {
		v.Assert("C06.quota.once", r.kept+r.dropped == 1)
		want := budget * int64(r.size) / total
		if r.kept == 1 {
			v.Assert("C06.quota.is_proportional_share_rounded_down", int64(quotas[r.item]) == want)
			sum += int64(quotas[r.item])
		} else {
			v.Assert("C06.quota.discarded_only_when_share_below_1", want < 1)
		}
	}
	v.Assert("C06.quota.sum_at_most_budget", sum <= budget)
	for _, a := range st.rows {
		for _, b := range st.rows {
			if a.size >= b.size && a.kept == 1 && b.kept == 1 {
				v.Assert("C06.quota.monotone_in_size", quotas[a.item] >= quotas[b.item])
			}
		}
	}
	v.Reach("C06.quota.end")
}

func Harness_C06_quota_2rows() { c06Quota(2) }
func Harness_C06_quota_3rows() { c06Quota(3) }

// two sampled metrics: the one with the larger size-to-weight ratio never gets the smaller sample
// factor (compared as the fractions the code computes: sf = sumSize*denom/budget), and with the
// deterministic selector floor(len/sf) the kept size of equally sized rows stays within the budget
func Harness_C06_ratio_monotone() {
	type call struct {
		metric int32
		sfNum  int64
		sfDen  int64
		n      int
		pos    int
	}
	var calls []call
	st := &c05State{}
	metas := []*format.MetricMetaValue{
		{MetricID: 1, EffectiveWeight: int64(1 + v.Choice(2))},
		{MetricID: 2, EffectiveWeight: int64(1 + v.Choice(2))},
	}
	cfg := SamplerConfig{
		Rand:          rand.New(),
		KeepF:         func(it *MultiItem, ts uint32, quota uint32) { st.find(it).kept++ },
		DiscardF:      func(it *MultiItem, ts uint32) { st.find(it).dropped++ },
		SampleFactorF: func(metricID int32, sf float64) {},
		RoundF:        func(b float64, r *rand.Rand) float64 { return math.Floor(b) },
	}
	cfg.SelectF = func(items []SamplingMultiItemPair, sf float64, r *rand.Rand) int {
		return 0
	}
	cfg.SampleF = func(s *sampler, g samplerGroup) {
		calls = append(calls, call{metric: g.MetricID, sfNum: g.budgetDenom * g.sumSize, sfDen: g.budget, n: len(g.items)})
		s.sample(g)
	}
	h := NewSampler(cfg)
	sizes := [2]int64{}
	for i := 0; i < 4; i++ {
		m := i % 2
		sz := []int{1, 3, 8}[v.Choice(3)]
		row := &c05Row{item: &MultiItem{MetricMeta: metas[m]}, size: sz, metric: metas[m].MetricID}
		st.rows = append(st.rows, row)
		sizes[m] += int64(sz)
		h.Add(SamplingMultiItemPair{Item: row.item, Size: sz, MetricID: row.metric, BucketTs: 1000})
	}
	budget := v.NondetIntRange(1, 64)
	h.Run(budget)
	if len(calls) == 2 {
		a, b := calls[0], calls[1]
		wa, wb := metas[a.metric-1].EffectiveWeight, metas[b.metric-1].EffectiveWeight
		sa, sb := sizes[a.metric-1], sizes[b.metric-1]
		// ratio(a) <= ratio(b)  =>  sf(a) <= sf(b), all as cross-multiplied integers (budgets >= 1 here)
		if sa*wb <= sb*wa && a.sfDen >= 1 && b.sfDen >= 1 {
			v.Assert("C06.larger_ratio_not_smaller_factor", a.sfNum*b.sfDen <= b.sfNum*a.sfDen)
		}
		if sb*wa <= sa*wb && a.sfDen >= 1 && b.sfDen >= 1 {
			v.Assert("C06.larger_ratio_not_smaller_factor", b.sfNum*a.sfDen <= a.sfNum*b.sfDen)
		}
	}
	v.Reach("C06.ratio.end")
}

func c05Cfg(st *c05State) SamplerConfig {
	cfg := SamplerConfig{
		Rand:          rand.New(),
		KeepF:         func(it *MultiItem, ts uint32, quota uint32) { st.find(it).kept++ },
		DiscardF:      func(it *MultiItem, ts uint32) { st.find(it).dropped++ },
		SampleFactorF: func(metricID int32, sf float64) {},
		RoundF:        func(b float64, r *rand.Rand) float64 { return math.Floor(b) },
	}
	cfg.SelectF = func(items []SamplingMultiItemPair, sf float64, r *rand.Rand) int {
		st.selCalls++
		pos := int(v.NondetIntRange(0, int64(len(items))))
		for i := range items {
			row := st.find(items[i].Item)
			row.inSel = true
			row.sfAtSel = sf
			row.selKept = i < pos
		}
		return pos
	}
	return cfg
}

func c05Common(st *c05State) {
	for _, r := range st.rows {
		v.Assert("C05.each_row_kept_or_discarded_exactly_once", r.kept+r.dropped == 1)
		if r.inSel {
			v.Assert("C05.selected_iff_kept", (r.kept == 1) == r.selKept)
			v.Assert("C05.row_carries_selector_factor", r.item.SF == r.sfAtSel)
		} else {
			v.Assert("C05.unconditional_rows_kept", r.kept == 1)
			v.Assert("C05.unconditional_rows_factor_1", r.item.SF == 1)
		}
	}
}

// Dedicated per-metric budgets (SampleBudgets): 2..3 rows over two metrics, metric 1 carries its own
// budget (1 or 4) on its rows, metric 2 shares the common budget (0..32); agent mode, the
// no-sample-on-agent switch and the metric-1 flag arbitrary. Every row is kept or discarded once with
// the selector's factor; a no-sample-agent metric on an agent is always kept with factor 1 - with or
// without a dedicated budget; a metric that fits its dedicated budget is kept entirely; the metric on
// the common budget is kept entirely when it fits it (the dedicated metric does not eat from it).
func c05Budgets(n int) {
	st := &c05State{}
	metas := []*format.MetricMetaValue{{MetricID: 1, EffectiveWeight: 1}, {MetricID: 2, EffectiveWeight: 1}}
	cfg := c05Cfg(st)
	cfg.SampleBudgets = true
	cfg.ModeAgent = v.NondetBool()
	cfg.DisableNoSampleAgent = v.NondetBool()
	metas[0].NoSampleAgent = v.NondetBool()
	dedicated := uint32([]int{1, 4}[v.Choice(2)])
	h := NewSampler(cfg)
	size := [2]int{}
	for i := 0; i < n; i++ {
		m := v.Choice(2)
		row := &c05Row{item: &MultiItem{MetricMeta: metas[m]}, size: []int{1, 3, 8}[v.Choice(3)], whale: v.NondetFloatInt(0, 100), metric: metas[m].MetricID}
		st.rows = append(st.rows, row)
		size[m] += row.size
		p := SamplingMultiItemPair{Item: row.item, WhaleWeight: row.whale, Size: row.size, MetricID: row.metric, BucketTs: 1000}
		if m == 0 {
			p.Budget = dedicated
		}
		h.Add(p)
	}
	budget := []int64{0, 1, 2, 4, 7, 8, 11, 16, 32}[v.Choice(9)] // concrete list: a symbolic budget under the dedicated-budget partition gave solver unknowns
	h.Run(budget)
	c05Common(st)
	for _, r := range st.rows {
		if r.metric == 1 {
			if metas[0].NoSampleAgent && cfg.ModeAgent && !cfg.DisableNoSampleAgent {
				v.Assert("C05.budgets.no_sample_agent_metric_always_kept_with_1", v.And(r.kept == 1, r.item.SF == 1))
				v.Reach("C05.budgets.no_sample_agent")
			}
			if size[0] <= int(dedicated) {
				v.Assert("C05.budgets.fits_dedicated_budget_kept_with_1", v.And(r.kept == 1, r.item.SF == 1))
			}
		} else if int64(size[1]) <= budget {
			v.Assert("C06.budgets.common_metric_fits_common_budget_kept_with_1", v.And(r.kept == 1, r.item.SF == 1))
		}
	}
	v.Reach("C05.budgets.end")
}

func Harness_C05_budgets_2rows() { c05Budgets(2) }
func Harness_C05_budgets_3rows() { c05Budgets(3) }

// Fair keys (SampleKeys): one over-budget metric whose fair key is tag 2; 2..3 rows with tag 2 in
// {5,6} and tag 0 in {5,6} independently, sizes from {1,3,8}, budget from {0,1,2,4,7,8,11,16,32}. The rows are partitioned
// by the value of the configured tag (not any other tag): a key value whose rows take no more than
// its equal share of the metric's budget (size x number of key values <= budget) is kept entirely
// with factor 1, whatever the other key value's size.
func c06FairKey(n int) {
	st := &c05State{}
	meta := &format.MetricMetaValue{MetricID: 1, EffectiveWeight: 1, FairKeyIndex: []int{2}}
	cfg := c05Cfg(st)
	cfg.SampleKeys = true
	// one metric of weight 1: the metric's budget is budget*1/1, already integral - no rounding draw
	cfg.RoundF = func(b float64, r *rand.Rand) float64 { return b }
	h := NewSampler(cfg)
	var keyOf []int32
	sizeOf := map[int32]int{}
	for i := 0; i < n; i++ {
		row := &c05Row{item: &MultiItem{MetricMeta: meta}, size: []int{1, 3, 8}[v.Choice(3)], whale: v.NondetFloatInt(0, 100), metric: 1}
		k := int32(5 + v.Choice(2))
		row.item.Key.Metric = 1
		row.item.Key.Tags[2] = k
		row.item.Key.Tags[0] = int32(5 + v.Choice(2))
		keyOf = append(keyOf, k)
		sizeOf[k] += row.size
		st.rows = append(st.rows, row)
		h.Add(SamplingMultiItemPair{Item: row.item, WhaleWeight: row.whale, Size: row.size, MetricID: 1, BucketTs: 1000})
	}
	budget := []int64{0, 1, 2, 4, 7, 8, 11, 16, 32}[v.Choice(9)] // concrete list: a symbolic budget under the dedicated-budget partition gave solver unknowns
	h.Run(budget)
	c05Common(st)
	for i, r := range st.rows {
		if int64(sizeOf[keyOf[i]]*len(sizeOf)) <= budget {
			v.Assert("C06.fairkey.key_value_within_its_share_kept_with_1", v.And(r.kept == 1, r.item.SF == 1))
			v.Reach("C06.fairkey.within_share")
		}
	}
	v.Reach("C06.fairkey.end")
}

func Harness_C06_fair_key_2rows() { c06FairKey(2) }
func Harness_C06_fair_key_3rows() { c06FairKey(3) }

// ---- selectRandom against its own draws ----
// rand.Float64 is replaced by a model that hands out draws chosen by the harness (k/8, k = 0..7), so
// the oracle knows which rows' draws succeeded.
var c05Draws []float64
var c05DrawPos int

func C05Float64(r *rand.Rand) float64 {
	d := c05Draws[c05DrawPos]
	c05DrawPos++
	return d
}

// 0..3 rows, factor from {0.5, 1, 1.5, 2, 3, 8}, one draw per row in row order: the rows moved to the
// front (the ones sampler.sample keeps with the factor) are exactly the rows whose own draw succeeded
// (draw x factor < 1), in their original order, and the returned length is their number - so each row's
// keep probability is 1/factor whatever its position or weight.
func Harness_C05_selectRandom_keeps_the_drawn_rows() {
	r := rand.New()
	n := v.Choice(4)
	sf := []float64{0.5, 1, 1.5, 2, 3, 8}[v.Choice(6)]
	items := make([]SamplingMultiItemPair, n)
	its := make([]*MultiItem, n)
	c05Draws, c05DrawPos = nil, 0
	for i := range items {
		its[i] = &MultiItem{}
		items[i].Item = its[i]
		c05Draws = append(c05Draws, v.NondetFloatInt(0, 7)/8)
	}
	got := selectRandom(items, sf, r)
	if sf <= 1 {
		v.Assert("C05.select.keeps_all_for_sf_le_1", got == n)
		v.Reach("C05.select.drawn.end")
		return
	}
	v.Assert("C05.select.one_draw_per_row", c05DrawPos == n)
	var want []*MultiItem
	for i := 0; i < n; i++ {
		if c05Draws[i]*sf < 1 {
			want = append(want, its[i])
		}
	}
	v.Assert("C05.select.count_is_number_of_successful_draws", got == len(want))
	for k := 0; k < len(want) && k < got; k++ {
		v.Assert("C05.select.front_rows_are_the_rows_whose_draw_succeeded", items[k].Item == want[k])
	}
	v.Reach("C05.select.drawn.end")
}
