//go:build verif

package format

import v "github.com/VKCOM/statshouse/internal/zzverif"

func Harness_Smoke() {
	x := v.NondetU32()
	if x > 10 {
		v.Assert("gt", x+1 != 5)
	} else {
		v.Assert("le", x < 11)
	}
	b := v.NondetBytes(2)
	s := string(b)
	if s == "ab" {
		v.Assert("eq", b[0] == 'a')
	}
	v.Assert("bad", x != 77)
	v.Reach("end")
}
