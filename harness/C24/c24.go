//go:build verif

package api

import (
	"context"
	"time"

	"github.com/VKCOM/statshouse/internal/data_model"
	v "github.com/VKCOM/statshouse/internal/zzverif"
)

const c24Hour = 1_700_002_800 // a multiple of 3600: ranges below straddle this hour (and minute) boundary

// hierarchical invalidation map: one second s invalidated at instant `at`; a range [from,to] (0, 1, 7, 59, 61 or 125 s
// long, starting 65 s before, 1 s before, on, or 30 s after an hour boundary) loaded at `loadAt`, everything inside the
// mutable window: the cached range is declared valid only if s is outside it or the load started more
// than the linger after the invalidation.
func Harness_C24_invalidation_map() {
	clock := int64(c24Hour+300) * 1e9
	c := newSecondsCache(0, func() time.Time { return time.Unix(0, clock) })
	from := c24Hour + []int64{-65, -1, 0, 30}[v.Choice(4)] // before the hour, last second of it, on it, mid-minute
	to := from + []int64{0, 1, 7, 59, 61, 125}[v.Choice(6)] // concrete lengths keep the per-second loops fork-free
	s := from + v.NondetIntRange(-3, 128)
	at := clock - v.NondetIntRange(0, 60)*1e9 - v.NondetIntRange(0, 999_999_999)
	loadAt := clock - v.NondetIntRange(0, 60)*1e9 - v.NondetIntRange(0, 999_999_999)
	c.updateTimeLocked(at, s)
	valid := c.checkInvalidationLocked(loadAt, from, to)
	stale := v.And(v.And(from <= s, s <= to), loadAt <= at+int64(invalidateLinger))
	v.Assert("C24.map.stale_range_is_never_valid", v.Implies(stale, !valid))
	v.Assert("C24.map.untouched_range_stays_valid", v.Implies(v.Not(v.And(from <= s, s <= to)), valid))
	v.Reach("C24.map.end")
}

// the later of two invalidations of the same second wins, the earlier of a second in the same minute does not hide it
func Harness_C24_invalidation_map_two() {
	clock := int64(c24Hour+300) * 1e9
	c := newSecondsCache(0, func() time.Time { return time.Unix(0, clock) })
	from := c24Hour + []int64{-65, -1, 0, 30}[v.Choice(4)]
	to := from + []int64{0, 7, 61, 125}[v.Choice(4)]
	s1 := from + v.NondetIntRange(-3, 128)
	s2 := from + v.NondetIntRange(-3, 128)
	at1 := clock - v.NondetIntRange(0, 60)*1e9
	at2 := clock - v.NondetIntRange(0, 60)*1e9
	loadAt := clock - v.NondetIntRange(0, 60)*1e9
	c.updateTimeLocked(at1, s1)
	c.updateTimeLocked(at2, s2)
	valid := c.checkInvalidationLocked(loadAt, from, to)
	stale1 := v.And(v.And(from <= s1, s1 <= to), loadAt <= at1+int64(invalidateLinger))
	stale2 := v.And(v.And(from <= s2, s2 <= to), loadAt <= at2+int64(invalidateLinger))
	v.Assert("C24.map2.stale_range_is_never_valid", v.Implies(v.Or(stale1, stale2), !valid))
	v.Reach("C24.map2.end")
}

// pointsCache.get / invalidate with a controllable clock: first request loads (the loader may take
// arbitrarily long), an invalidation of second s arrives before, during or after that load (or not at
// all), then the same range is requested again. If s is inside the range and was invalidated at or
// after the moment the first load STARTED (minus the linger), the second request must not be served
// from the first load's rows. Size accounting stays within the bound.
func Harness_C24_get_freshness() { c24Freshness(c24Hour+300, c24Hour, []int64{-65, -1, 0, 30}) }

// the same, for seconds about 48 h old: the range sits 70..300 s inside the mutable window whose moving
// boundary (now-48h) lies in the middle of the same hour, so invalidate() prunes the hour bucket that
// also covers the still-mutable seconds
func Harness_C24_get_freshness_at_mutable_window_edge() {
	c24Freshness(c24Hour+48*3600+1500, c24Hour+1500, []int64{70, 300})
}

func c24Freshness(clock0 int64, fromBase int64, fromOffsets []int64) {
	clock := clock0 * 1e9
	now := func() time.Time { return time.Unix(0, clock) }
	loads := 0
	when := v.Choice(4) // 0: no invalidation, 1: before the load, 2: during the load, 3: after the load
	from := fromBase + fromOffsets[v.Choice(len(fromOffsets))]
	to := from + []int64{0, 7, 61}[v.Choice(3)]
	s := from + v.NondetIntRange(-3, 73)
	var c *pointsCache
	var invalidatedAt int64
	// concrete steps that straddle the 15 s linger (a symbolic time.Time turns every clock comparison into a slow query)
	adv := func() { clock += []int64{0, 14, 16}[v.Choice(3)] * 1e9 }
	loader := func(ctx context.Context, h *requestHandler, pq *queryBuilder, lod data_model.LOD) ([]pSelectRow, error) {
		loads++
		gen := loads
		adv() // the load takes time
		if when == 2 && gen == 1 {
			invalidatedAt = clock
			c.invalidate([]int64{s})
			adv()
		}
		row := pSelectRow{}
		row.tsValues.count = float64(gen) // marker: which load produced the row
		return []pSelectRow{row}, nil
	}
	c = newPointsCache(10, 0, loader, now)
	h := &requestHandler{}
	pq := &queryBuilder{cacheKey: "k"}
	lod := data_model.LOD{FromSec: from, ToSec: to}
	if when == 1 {
		invalidatedAt = clock
		c.invalidate([]int64{s})
		adv()
	}
	loadStart := clock
	rows1, err := c.get(context.Background(), h, pq, lod, false)
	v.Assert("C24.get.first_request_loads", err == nil && loads == 1 && len(rows1) == 1)
	adv()
	if when == 3 {
		invalidatedAt = clock
		c.invalidate([]int64{s})
		adv()
	}
	rows2, err := c.get(context.Background(), h, pq, lod, false)
	v.Assert("C24.get.second_request_ok", err == nil && len(rows2) == 1)
	inRange := v.And(from <= s, s <= to)
	if when != 0 {
		mustReload := v.And(inRange, loadStart <= invalidatedAt+int64(invalidateLinger))
		v.Assert("C24.get.rows_older_than_invalidation_not_served", v.Implies(mustReload, rows2[0].tsValues.count == 2))
	}
	v.Assert("C24.get.size_bound", c.size+len(c.cache) <= c.approxMaxSize+2)
	// the bound rests on exact accounting: the global size is the sum of what eviction will give back
	acc := 0
	for _, e := range c.cache {
		acc += e.rowsSize + len(e.rows)
	}
	v.Assert("C24.get.size_accounting_exact", c.size == acc)
	v.Reach("C24.get.end")
}
