//go:build verif

// Package zzverif is the harness support library. Under the gosx engine every function
// here is intercepted (arbitrary values become solver variables, Assert becomes a solver
// query). Compiled natively the same functions replay a tape of concrete values, so a
// counterexample found by the solver can be re-run against the real build.
package zzverif

import (
	"encoding/json"
	"fmt"
	"math"
	"os"
	"runtime"
	"strconv"
	"time"

	prand "pgregory.net/rand"
)

// NativeQuiesce is how long the native Quiesce waits for goroutines and real timers to settle.
var NativeQuiesce = 100 * time.Millisecond

// native approximation of quiescence: wait at least NativeQuiesce, then until the number of goroutines
// has been stable for a while (bounded); timing based, so checks that rely on it allow re-runs
func quiesceNative() {
	time.Sleep(NativeQuiesce)
	last, stable := runtime.NumGoroutine(), 0
	for i := 0; i < 100 && stable < 5; i++ {
		time.Sleep(20 * time.Millisecond)
		if n := runtime.NumGoroutine(); n == last {
			stable++
		} else {
			last, stable = n, 0
		}
	}
}

// Random draws of pgregory.net/rand are inputs: under the engine the drawing methods are solver
// variables (Float64 in [0,1), Uint64n(n) < n, ...); natively the overlaid rand.go consults this
// hook, which reads the same values from the replay tape.
func init() {
	prand.VerifDraw = func(kind string, n uint64) uint64 {
		switch kind {
		case "f64", "f32", "u64", "u32":
			return next(kind)
		case "u64n":
			x := next("u64")
			if n == 0 {
				return 0
			}
			if x >= n {
				panic(AssumeFailed{})
			}
			return x
		case "u32n":
			x := next("u32")
			if n == 0 {
				return 0
			}
			if x >= n {
				panic(AssumeFailed{})
			}
			return x
		}
		panic("zzverif: unknown draw kind " + kind)
	}
}

type tapeEntry struct {
	K string `json:"k"`
	N string `json:"n,omitempty"`
	V string `json:"v"`
}

var (
	tape     []tapeEntry
	tapePos  int
	loaded   bool
	Failures []string
	Reached  []string
	Observed []string
)

func load() {
	if loaded {
		return
	}
	loaded = true
	p := os.Getenv("VERIF_TAPE")
	if p == "" {
		return
	}
	b, err := os.ReadFile(p)
	if err != nil {
		panic(err)
	}
	tape = nil // Unmarshal into a reused backing array keeps fields the JSON omits
	if err := json.Unmarshal(b, &tape); err != nil {
		panic(err)
	}
}

// Reset restarts tape consumption (between harnesses in one test binary).
func Reset() {
	tapePos = 0
	Failures = nil
	Reached = nil
	Observed = nil
	loaded = false
	load()
}

func next(kind string) uint64 {
	load()
	if tapePos >= len(tape) {
		// A counterexample tape ends at the failing assertion; inputs drawn after it cannot
		// undo the recorded failure, so they default to zero (ranged ones to their low end).
		if len(Failures) > 0 {
			return 0
		}
		panic(fmt.Sprintf("zzverif: tape exhausted at %d (want %s)", tapePos, kind))
	}
	// scheduling and map-order choices are the engine's own: natively the Go scheduler / runtime decides
	for tapePos < len(tape) && (tape[tapePos].N == "schedule" || tape[tapePos].N == "map iteration order") {
		tapePos++
	}
	if tapePos >= len(tape) {
		if len(Failures) > 0 {
			return 0
		}
		panic(fmt.Sprintf("zzverif: tape exhausted at %d (want %s)", tapePos, kind))
	}
	e := tape[tapePos]
	tapePos++
	if e.K != kind {
		panic(fmt.Sprintf("zzverif: tape kind mismatch at %d: have %s want %s", tapePos-1, e.K, kind))
	}
	if e.V == "true" {
		return 1
	}
	if e.V == "false" {
		return 0
	}
	if len(e.V) > 0 && e.V[0] == '-' {
		v, err := strconv.ParseInt(e.V, 10, 64)
		if err != nil {
			panic(err)
		}
		return uint64(v)
	}
	v, err := strconv.ParseUint(e.V, 10, 64)
	if err != nil {
		panic(err)
	}
	return v
}

func NondetBool() bool   { return next("bool") != 0 }
func NondetU8() uint8    { return uint8(next("u8")) }
func NondetU16() uint16  { return uint16(next("u16")) }
func NondetU32() uint32  { return uint32(next("u32")) }
func NondetU64() uint64  { return next("u64") }
func NondetI8() int8     { return int8(next("i8")) }
func NondetI16() int16   { return int16(next("i16")) }
func NondetI32() int32   { return int32(next("i32")) }
func NondetI64() int64   { return int64(next("i64")) }
func NondetInt() int     { return int(next("int")) }
func NondetF64() float64 { return math.Float64frombits(next("f64")) }
func NondetF32() float32 { return math.Float32frombits(uint32(next("f32"))) }

// NondetIntRange returns an arbitrary integer in [lo,hi]; the engine tracks it as a ranged
// mathematical integer (exact, with explicit wrap-around where a result leaves its type).
func NondetIntRange(lo, hi int64) int64 {
	if x := int64(next("irange")); x >= lo && x <= hi {
		return x
	}
	return lo
}
func NondetI32Range(lo, hi int32) int32 { return int32(NondetIntRange(int64(lo), int64(hi))) }
func NondetU32Range(lo, hi uint32) uint32 {
	return uint32(NondetIntRange(int64(lo), int64(hi)))
}
func NondetU64Range(lo, hi uint64) uint64 {
	if x := next("irange"); x >= lo && x <= hi {
		return x
	}
	return lo
}

// NondetFloatInt returns a float64 holding an arbitrary integer in [lo,hi] (|.| <= 2^53).
func NondetFloatInt(lo, hi int64) float64 { return float64(int64(next("fint"))) }

// Choice returns an arbitrary value in [0,n), explored exhaustively (one path per value).
func Choice(n int) int {
	if n <= 1 {
		return 0 // the engine records no decision for a single alternative
	}
	return int(next("choice"))
}

// NondetBytes returns n arbitrary bytes.
func NondetBytes(n int) []byte {
	b := make([]byte, n)
	for i := range b {
		b[i] = NondetU8()
	}
	return b
}

func NondetString(n int) string { return string(NondetBytes(n)) }

// Assume restricts the inputs considered; it must precede the code it constrains.
func Assume(c bool) {
	if !c {
		panic(AssumeFailed{})
	}
}

type AssumeFailed struct{}

// Assert states the property.
func Assert(name string, c bool) {
	if !c {
		Failures = append(Failures, name)
	}
}

// Reach is the vacuity witness: at least one feasible path must get here.
func Reach(name string) { Reached = append(Reached, name) }

// Observe records a value in the path trace (translator validation).
func Observe(name string, vals ...any) {
	Observed = append(Observed, fmt.Sprint(append([]any{name}, vals...)...))
}

// IsSymbolic is true only under the engine.
func IsSymbolic() bool { return false }

// KnownShape marks the inputs of a recorded known finding: it returns shape. Under the engine,
// when id is listed as "known" in known_findings.json, violations on paths inside the shape are
// reported as KNOWN-FINDING; everything outside the shape is checked as usual.
func KnownShape(id string, shape bool) bool { return shape }

// Non-forking boolean combinators: under the engine they build one formula instead of
// splitting the path the way && and || do.
func And(a, b bool) bool     { return a && b }
func Or(a, b bool) bool      { return a || b }
func Implies(a, b bool) bool { return !a || b }
func Not(a bool) bool        { return !a }
func B2I(a bool) int {
	if a {
		return 1
	}
	return 0
}

// Quiesce (engine only): every other goroutine and armed virtual timer runs until none can; the
// caller continues at quiescence. Natively it yields for a while so that goroutines and real
// timers get their turn (native confirmation of scheduling counterexamples is best effort).
func Quiesce() { quiesceNative() }

// GoroutinesBlocked (engine only): goroutines other than the caller that have not finished.
func GoroutinesBlocked() int { return 0 }
