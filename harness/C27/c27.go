//go:build verif

package promql

import (
	"math"

	"github.com/VKCOM/statshouse/internal/promql/parser"
	v "github.com/VKCOM/statshouse/internal/zzverif"
)

// a column of n series at one timestamp: each point is missing (NaN) or an integer in +-1000
func c27Column(n int) ([]SeriesData, []float64, []bool) {
	ds := make([]SeriesData, n)
	vals := make([]float64, n)
	miss := make([]bool, n)
	for j := range ds {
		if v.NondetBool() {
			miss[j] = true
			vals[j] = math.NaN()
		} else {
			vals[j] = v.NondetFloatInt(-1000, 1000)
		}
		col := []float64{vals[j]}
		ds[j].Values = &col
	}
	return ds, vals, miss
}

func c27Present(miss []bool) int {
	n := 0
	for _, m := range miss {
		if !m {
			n++
		}
	}
	return n
}

// sum / count / group / min / max / avg over 3 series with missing points excluded
func Harness_C27_aggregates() {
	ds, vals, miss := c27Column(3)
	n := c27Present(miss)
	which := v.Choice(6)
	switch which {
	case 0:
		funcSum(ds, nil)
	case 1:
		funcCount(ds, nil)
	case 2:
		funcGroup(ds, nil)
	case 3:
		funcMin(ds, nil)
	case 4:
		funcMax(ds, nil)
	case 5:
		funcAvg(ds, nil)
	}
	got := (*ds[0].Values)[0]
	sum := 0.0
	for j, x := range vals {
		if !miss[j] {
			sum += x
		}
	}
	switch which {
	case 0:
		if n == 0 {
			v.Assert("C27.sum.all_missing_is_missing", got != got)
		} else {
			v.Assert("C27.sum.is_sum_of_present", got == sum)
		}
	case 1:
		v.Assert("C27.count.counts_present", got == float64(n))
	case 2:
		v.Assert("C27.group.is_1", got == 1)
	case 3, 4:
		if n == 0 {
			v.Assert("C27.minmax.all_missing_is_missing", got != got)
		} else {
			bound, attained := true, false
			for j, x := range vals {
				if miss[j] {
					continue
				}
				if which == 3 {
					bound = v.And(bound, got <= x)
				} else {
					bound = v.And(bound, got >= x)
				}
				attained = v.Or(attained, got == x)
			}
			v.Assert("C27.minmax.is_extreme_of_present", v.And(bound, attained))
		}
	case 5:
		if n == 0 {
			v.Assert("C27.avg.all_missing_is_missing", got != got)
		} else {
			v.Assert("C27.avg.is_sum_over_count", got == sum/float64(n))
		}
	}
	v.Reach("C27.aggregates.end")
}

// quantile over 3 series: q outside [0,1] gives -Inf/+Inf; otherwise the rank is taken in the sorted
// column of the PRESENT points (missing points excluded) with linear interpolation
func Harness_C27_quantile() {
	ds, vals, miss := c27Column(3)
	n := c27Present(miss)
	q := []float64{-0.5, 0, 0.5, 1, 1.5}[v.Choice(5)]
	funcQuantile(ds, &parser.NumberLiteral{Val: q})
	got := (*ds[0].Values)[0]
	switch {
	case q < 0:
		v.Assert("C27.quantile.below_0_is_minus_inf", math.IsInf(got, -1))
	case q > 1:
		v.Assert("C27.quantile.above_1_is_plus_inf", math.IsInf(got, 1))
	case n == 0:
		v.Assert("C27.quantile.all_missing_is_missing", got != got)
	default:
		// sorted present values (n <= 3): selection by comparison, no forks
		var p []float64
		for j, x := range vals {
			if !miss[j] {
				p = append(p, x)
			}
		}
		lo, hi := p[0], p[0]
		for _, x := range p {
			lo = c27Sel(x < lo, x, lo)
			hi = c27Sel(x > hi, x, hi)
		}
		want := lo
		switch {
		case q == 1:
			want = hi
		case q == 0.5 && n == 2:
			want = lo*0.5 + hi*0.5
		case q == 0.5 && n == 3:
			want = p[0] + p[1] + p[2] - lo - hi // the middle one
		}
		v.Assert("C27.quantile.rank_among_present_points", got == want)
	}
	v.Reach("C27.quantile.end")
}

// stdvar / stddev over 3 series: a number when some point is present, missing when all points are missing
func Harness_C27_stdvar() {
	ds, _, miss := c27Column(3)
	n := c27Present(miss)
	dev := v.NondetBool()
	if dev {
		funcStdDev(ds, nil)
	} else {
		funcStdVar(ds, nil)
	}
	got := (*ds[0].Values)[0]
	if n == 0 {
		v.Assert("C27.stdvar.all_missing_is_missing", got != got)
		v.Reach("C27.stdvar.end")
		return
	}
	// the value itself (sum of squared deviations divided by n, in floating point) is not compared:
	// with division uninterpreted the comparison would only restate the code
	v.Reach("C27.stdvar.end")
}

func c27Sel(c bool, a, b float64) float64 {
	if c {
		return a
	}
	return b
}

// over-time functions on a window of 3 points
func Harness_C27_over_time() {
	_, vals, miss := c27Column(3)
	n := c27Present(miss)
	sum := 0.0
	for j, x := range vals {
		if !miss[j] {
			sum += x
		}
	}
	which := v.Choice(5)
	var got float64
	switch which {
	case 0:
		got = funcSumOverTime(vals)
	case 1:
		got = funcCountOverTime(vals)
	case 2:
		got = funcMinOverTime(vals)
	case 3:
		got = funcMaxOverTime(vals)
	case 4:
		got = funcAvgOverTime(vals)
	}
	if n == 0 && which != 1 {
		v.Assert("C27.over_time.empty_window_is_nil", got != got || got == NilValue)
		v.Reach("C27.over_time.end")
		return
	}
	switch which {
	case 0:
		v.Assert("C27.over_time.sum", got == sum)
	case 1:
		v.Assert("C27.over_time.count", got == float64(n))
	case 2, 3:
		bound, attained := true, false
		for j, x := range vals {
			if miss[j] {
				continue
			}
			if which == 2 {
				bound = v.And(bound, got <= x)
			} else {
				bound = v.And(bound, got >= x)
			}
			attained = v.Or(attained, got == x)
		}
		v.Assert("C27.over_time.minmax", v.And(bound, attained))
	case 4:
		v.Assert("C27.over_time.avg", got == sum/float64(n))
	}
	v.Reach("C27.over_time.end")
}

// The sliding window behind the *_over_time functions: a series of 5 points one step (60 s) apart, each
// missing or present (arbitrary pattern), window of 1..3 steps, strict or not, run through the loop of
// overTimeCall (transcribed: moveOneLeft / setValueAtRight / fillPrefixWith are the real ones, results
// are written in place as the real loop does) with count_over_time and sum_over_time: every output
// point equals the function over exactly the present points of its own window [r-k+1, r] of the
// ORIGINAL series, and the points without a full window to their left are missing (the one point whose
// window would begin at the first axis point is left unconstrained).
func Harness_C27_window_over_time() {
	const n = 5
	t := make([]int64, n)
	orig := make([]float64, n)
	vals := make([]float64, n)
	for i := 0; i < n; i++ {
		t[i] = int64(1000 + 60*i)
		orig[i] = float64(i + 1)
		if v.NondetBool() {
			orig[i] = NilValue
		}
		vals[i] = orig[i]
	}
	k := 1 + v.Choice(3)
	strict := v.NondetBool()
	useSum := v.NondetBool()
	fn, nilValue := funcCountOverTime, 0.0
	if useSum {
		fn, nilValue = funcSumOverTime, NilValue
	}
	wnd := newWindow(t, vals, int64(60*k), 60, strict)
	for wnd.moveOneLeft() {
		if wnd.n != 0 {
			wnd.setValueAtRight(fn(vals[wnd.l : wnd.r+1]))
		} else {
			wnd.setValueAtRight(nilValue)
		}
	}
	wnd.fillPrefixWith(NilValue)
	for r := 0; r < n; r++ {
		if r < k-1 {
			v.Assert("C27.window.no_full_window_is_missing", vals[r] != vals[r])
			continue
		}
		if r == k-1 {
			// the window would start at the very first point of the axis (the extra point left of the
			// requested range): the code reports it missing; not constrained here
			continue
		}
		cnt, sum := 0, 0.0
		for j := r - k + 1; j <= r; j++ {
			if orig[j] == orig[j] {
				cnt++
				sum += orig[j]
			}
		}
		if useSum {
			if cnt == 0 {
				v.Assert("C27.window.sum_of_empty_window_is_missing", vals[r] != vals[r])
			} else {
				v.Assert("C27.window.sum_over_present_points_of_own_window", vals[r] == sum)
			}
		} else {
			v.Assert("C27.window.count_of_present_points_of_own_window", vals[r] == float64(cnt))
		}
	}
	v.Reach("C27.window.end")
}
