//go:build verif

package metadata

import (
	v "github.com/VKCOM/statshouse/internal/zzverif"
)

// One budget step from an arbitrary stored state under a non-decreasing clock: the new budget
// is at most old - expense + bonus*elapsed_steps, never above max - expense once old <= max,
// and a request is refused (negative result) exactly when that value is negative.
func Harness_C19_calcBudget() {
	old := v.NondetIntRange(-1000, 100000)
	expense := v.NondetIntRange(1, 1000)
	max := v.NondetIntRange(1, 100000)
	bonus := []int64{0, 1, 2, 10, 1000}[v.Choice(5)]
	step := []uint32{1, 2, 60, 3600, 86400}[v.Choice(5)]
	last := v.NondetU32Range(0, 1<<32-1)
	now := v.NondetU32Range(0, 1<<32-1)
	v.Assume(now >= last) // clock going backwards is outside the claim
	v.Assume(now-last <= 1<<22)
	steps := int64((now - last) / step)
	got := calcBudget(old, expense, last, now, max, bonus, step)
	v.Assert("C19.budget.upper_by_bonus", got <= old-expense+steps*bonus)
	if old <= max {
		v.Assert("C19.budget.capped", got < max)
		want := old - expense + steps*bonus
		if want >= max {
			want = max - expense
		}
		v.Assert("C19.budget.exact", got == want)
	} else {
		v.Assert("C19.budget.reset_value_kept", got == old-expense)
	}
	// no time elapsed => exactly one expense is charged
	if steps == 0 && old < max {
		v.Assert("C19.budget.charge_only", got == old-expense)
	}
	v.Reach("C19.budget.end")
}

// Over two consecutive requests the granted total never exceeds the initial budget plus the
// bonus of the elapsed steps (rounding of partial steps can only lose time, never gain it).
func Harness_C19_calcBudget_two_steps() {
	old := v.NondetIntRange(0, 1000)
	max := v.NondetIntRange(1, 1000)
	v.Assume(old <= max)
	bonus := []int64{0, 1, 2, 10}[v.Choice(4)]
	step := []uint32{1, 2, 60, 3600}[v.Choice(4)]
	t0 := v.NondetU32Range(0, 1<<31)
	d1 := v.NondetU32Range(0, 100000)
	d2 := v.NondetU32Range(0, 100000)
	b1 := calcBudget(old, 1, t0, t0+d1, max, bonus, step)
	b2 := calcBudget(b1, 1, t0+d1, t0+d1+d2, max, bonus, step)
	elapsed := int64((d1 + d2) / step)
	v.Assert("C19.budget.two_steps_total", b2 <= old-2+elapsed*bonus)
	v.Reach("C19.budget2.end")
}
