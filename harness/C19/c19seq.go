//go:build verif

package metadata

import (
	"time"

	"github.com/VKCOM/statshouse/internal/sqlite"
	v "github.com/VKCOM/statshouse/internal/zzverif"
)

// getOrCreateMapping (the real control flow around the SQL statements) over a model of the two tables
// it touches. The SQL engine itself (cgo SQLite) is not encodable: each named statement is replaced by
// its meaning on a ghost table - select_mapping, select_flood_limit, update_flood_limit,
// insert_flood_limit, insert_mapping - and the argument constructors record what is bound.

type c19Arg struct {
	name string
	n    int64
	s    string
}

type c19DB struct {
	args     []c19Arg
	mapNames []string // mappings: id = index+1
	hasFlood bool     // flood_limits row of the one metric under test
	last     int64
	free     int64
	rows     [][]int64 // result of the last Query
	pos      int
}

var c19 c19DB

func (d *c19DB) arg(name string) c19Arg {
	for _, a := range d.args {
		if a.name == name {
			return a
		}
	}
	panic("c19: statement argument not bound: " + name)
}

func C19Int64(name string, n int64) sqlite.Arg {
	c19.args = append(c19.args, c19Arg{name: name, n: n})
	return sqlite.Arg{}
}

func C19BlobString(name string, s string) sqlite.Arg {
	c19.args = append(c19.args, c19Arg{name: name, s: s})
	return sqlite.Arg{}
}

func C19Query(c sqlite.Conn, name, sql string, args ...sqlite.Arg) sqlite.Rows {
	d := &c19
	d.rows, d.pos = nil, 0
	switch name {
	case "select_mapping":
		key := d.arg("$name").s
		for i, n := range d.mapNames {
			if n == key {
				d.rows = [][]int64{{int64(i + 1)}}
			}
		}
	case "select_flood_limit":
		if d.hasFlood {
			d.rows = [][]int64{{d.last, d.free}}
		}
	default:
		panic("c19: unmodelled query " + name)
	}
	d.args = d.args[:0]
	return sqlite.Rows{}
}

func C19Exec(c sqlite.Conn, name, sql string, args ...sqlite.Arg) (int64, error) {
	d := &c19
	var id int64
	switch name {
	case "update_flood_limit":
		if d.hasFlood {
			d.last, d.free = d.arg("$t").n, d.arg("$c").n
		}
	case "insert_flood_limit":
		v.Assert("C19.seq.flood_row_inserted_once", !d.hasFlood)
		d.hasFlood, d.last, d.free = true, d.arg("$t").n, d.arg("$c").n
	case "insert_mapping":
		key := d.arg("$name").s
		for _, n := range d.mapNames {
			v.Assert("C19.seq.no_second_id_for_a_string", n != key)
		}
		d.mapNames = append(d.mapNames, key)
		id = int64(len(d.mapNames))
	default:
		panic("c19: unmodelled statement " + name)
	}
	d.args = d.args[:0]
	return id, nil
}

func C19Next(r *sqlite.Rows) bool {
	d := &c19
	if d.pos < len(d.rows) {
		d.pos++
		return true
	}
	return false
}

func C19Col(r *sqlite.Rows, i int) (int64, error) { return c19.rows[c19.pos-1][i], nil }

func C19Err(r *sqlite.Rows) error { return nil }

// Three get-or-create requests for one metric after the global budget (0, or 2 with 3 mappings already
// present; last created id known or 0 = process just restarted) is exhausted, under an arbitrary
// non-decreasing clock (0..100000 s between requests), step in {1, 60, 3600}, bonus in {0, 1, 2},
// maximum budget 1..3, from either no flood-limit row or an arbitrary stored one (remaining 0..max,
// last update at or before the first request): each request asks for a new key or repeats the first.
// The number of mappings created never exceeds the initial remaining budget plus bonus x elapsed
// steps; a refused request creates nothing; a repeated key returns its id without touching the budget;
// the stored timestamp is the rounded time of the last granting request.
func Harness_C19_get_or_create_sequence() {
	d := &c19
	*d = c19DB{}
	step := []uint32{1, 60, 3600}[v.Choice(3)]
	bonus := []int64{0, 1, 2}[v.Choice(3)]
	max := v.NondetIntRange(1, 3)
	t := v.NondetU32Range(1_000_000_000, 1_000_100_000)
	initial := max
	start := t - t%step
	if v.NondetBool() {
		d.hasFlood = true
		d.free = v.NondetIntRange(0, 3)
		v.Assume(d.free <= max)
		back := v.NondetU32Range(0, 100000)
		lt := t - back
		d.last = int64(lt - lt%step)
		initial = d.free
		start = uint32(d.last)
	}
	// the global budget (0 or 2 mappings) is already used up: more mappings exist than it allows; the
	// process either created them itself (last created id known) or has just restarted (id 0)
	global := int64([]int{0, 2}[v.Choice(2)])
	for i := int64(0); i <= global && global > 0; i++ {
		d.mapNames = append(d.mapNames, []string{"p1", "p2", "p3"}[i])
	}
	pre := len(d.mapNames)
	lastCreated := int32(0)
	if v.NondetBool() {
		lastCreated = int32(1000)
		if pre > 0 {
			lastCreated = int32(pre)
		}
	}
	keys := []string{"k1", "k2", "k3"}
	created := 0
	nextKey := 0
	firstID := int32(0)
	var cache []byte
	for call := 0; call < 3; call++ {
		if call > 0 {
			t += v.NondetU32Range(0, 100000)
		}
		repeat := firstID != 0 && v.NondetBool()
		key := keys[nextKey]
		if repeat {
			key = keys[0]
		}
		freeBefore, lastBefore := d.free, d.last
		resp, _, err := getOrCreateMapping(sqlite.Conn{}, cache[:0], "m", key, time.Unix(int64(t), 0), global, max, bonus, step, lastCreated)
		v.Assert("C19.seq.no_error", err == nil)
		now := t - t%step
		elapsed := int64((now - start) / step)
		if repeat {
			got, ok := resp.AsGetMappingResponse()
			v.Assert("C19.seq.repeated_key_same_id_budget_untouched", ok && got.Id == firstID && d.free == freeBefore && d.last == lastBefore)
			continue
		}
		if c, ok := resp.AsCreated(); ok {
			created++
			lastCreated = c.Id
			v.Assert("C19.seq.created_id_is_new_and_positive", c.Id == int32(len(d.mapNames)) && d.mapNames[c.Id-1] == key)
			v.Assert("C19.seq.stored_time_is_rounded_request_time", d.hasFlood && d.last == int64(now))
			if nextKey == 0 {
				firstID = c.Id
			}
			nextKey++
		} else {
			v.Assert("C19.seq.refusal_is_flood_limit_error", resp.IsFloodLimitError())
			v.Assert("C19.seq.refused_request_creates_nothing", len(d.mapNames) == pre+created && d.free == freeBefore && d.last == lastBefore)
			v.Reach("C19.seq.refused")
		}
		v.Assert("C19.seq.created_within_budget_plus_bonus", int64(created) <= initial+bonus*elapsed)
	}
	if created == 3 {
		v.Reach("C19.seq.three_created")
	}
	v.Reach("C19.seq.end")
}
