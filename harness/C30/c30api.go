//go:build verif

package api

import (
	"strings"

	"github.com/VKCOM/statshouse/internal/format"
	v "github.com/VKCOM/statshouse/internal/zzverif"
)

// metric name: arbitrary 1..3 bytes over {a,b} or one of the remote-config metric names
func c30Name() string {
	switch v.Choice(3) {
	case 0:
		return format.StatshouseAgentRemoteConfigMetric
	case 1:
		return format.StatshouseAPIRemoteConfig
	}
	n := 1 + v.Choice(3)
	b := v.NondetBytes(n)
	for _, c := range b {
		v.Assume(v.Or(c == 'a', c == 'b'))
	}
	return string(b)
}

func c30Access() *accessInfo {
	ai := &accessInfo{
		user:              "u",
		protectedPrefixes: []string{"a"},
		bitAdmin:          v.NondetBool(),
		bitViewDefault:    v.NondetBool(),
		bitEditDefault:    v.NondetBool(),
		bitViewPrefix:     map[string]bool{},
		bitEditPrefix:     map[string]bool{},
		bitViewMetric:     map[string]bool{},
		bitEditMetric:     map[string]bool{},
	}
	if v.NondetBool() {
		ai.bitViewPrefix["ab"] = true
	}
	if v.NondetBool() {
		ai.bitEditPrefix["ab"] = true
	}
	if v.NondetBool() {
		ai.bitViewMetric["aa"] = true
	}
	if v.NondetBool() {
		ai.bitEditMetric["aa"] = true
	}
	if v.NondetBool() {
		ai.bitEditMetric["b"] = true
	}
	return ai
}

func c30Remote(name string) bool {
	return name == format.StatshouseAgentRemoteConfigMetric || name == format.StatshouseJournalDump ||
		name == format.StatshouseAggregatorRemoteConfigMetric || name == format.StatshouseAPIRemoteConfig
}

// View policy: the decision equals the declarative statement for every bit set and every name.
func Harness_C30_view_policy() {
	ai := c30Access()
	name := c30Name()
	got := ai.CanViewMetricName(name)
	protected := strings.HasPrefix(name, "a")
	want := ai.bitViewMetric[name] || (ai.bitViewPrefix["ab"] && strings.HasPrefix(name, "ab")) || (ai.bitViewDefault && !protected)
	if c30Remote(name) && !ai.bitAdmin {
		want = false
	}
	v.Assert("C30.view.decision_is_the_policy", got == want)
	if c30Remote(name) && !ai.bitAdmin {
		v.Assert("C30.view.remote_config_admin_only", !got)
	}
	v.Reach("C30.view.end")
}

// Edit / rename policy by name: rights are needed on both the old and the new name; remote-config
// metrics are for administrators only. Attributes are left unchanged here.
func Harness_C30_edit_names() {
	ai := c30Access()
	var old, new_ format.MetricMetaValue
	old.Name = c30Name()
	if v.NondetBool() {
		new_.Name = old.Name
	} else {
		new_.Name = c30Name()
	}
	err := ai.CanEditMetric(false, old, new_)
	byName := v.Or(v.And(ai.bitEditMetric[old.Name], ai.bitEditMetric[new_.Name]),
		v.Or(v.And(ai.bitEditPrefix["ab"], v.And(strings.HasPrefix(old.Name, "ab"), strings.HasPrefix(new_.Name, "ab"))),
			v.And(ai.bitEditDefault, v.And(!strings.HasPrefix(old.Name, "a"), !strings.HasPrefix(new_.Name, "a")))))
	remote := c30Remote(old.Name) || c30Remote(new_.Name)
	if ai.bitAdmin {
		v.Assert("C30.edit.admin_can_do_anything", err == nil)
	} else {
		v.Assert("C30.edit.decision_is_the_policy", (err == nil) == v.And(byName, !remote))
		if remote {
			v.Assert("C30.edit.remote_config_admin_only", err != nil)
		}
	}
	v.Reach("C30.edit.names.end")
}

// Attributes a non-admin with full edit rights on the name can never change: weight (except 0 -> 1),
// presort, host / sum-square skips, sharding, raw-tag attribute. Every other edit is allowed.
func Harness_C30_edit_attributes() {
	ai := &accessInfo{user: "u", bitEditDefault: true, bitViewPrefix: map[string]bool{}, bitEditPrefix: map[string]bool{},
		bitViewMetric: map[string]bool{}, bitEditMetric: map[string]bool{}}
	var old, new_ format.MetricMetaValue
	old.Name, new_.Name = "b", "b"
	old.Weight, new_.Weight = v.NondetF64(), v.NondetF64()
	v.Assume(old.Weight == old.Weight && new_.Weight == new_.Weight)
	old.PreKeyFrom, new_.PreKeyFrom = v.NondetU32(), v.NondetU32()
	old.PreKeyOnly, new_.PreKeyOnly = v.NondetBool(), v.NondetBool()
	old.SkipMaxHost, new_.SkipMaxHost = v.NondetBool(), v.NondetBool()
	old.SkipMinHost, new_.SkipMinHost = v.NondetBool(), v.NondetBool()
	old.SkipSumSquare, new_.SkipSumSquare = v.NondetBool(), v.NondetBool()
	strategies := []string{format.ShardByMetricID, format.ShardFixed, format.ShardByTagsHash}
	old.ShardStrategy = strategies[v.Choice(3)]
	new_.ShardStrategy = old.ShardStrategy
	if v.NondetBool() {
		new_.ShardStrategy = strategies[v.Choice(3)]
	}
	old.ShardNum, new_.ShardNum = v.NondetU32(), v.NondetU32()
	old.ShardFixedKey, new_.ShardFixedKey = v.NondetU32(), v.NondetU32()
	old.ShardFixedKey2, new_.ShardFixedKey2 = v.NondetU32(), v.NondetU32()
	old.ShardFixedKey2Timestamp, new_.ShardFixedKey2Timestamp = v.NondetU32(), v.NondetU32()
	kinds := []string{"", "hex"}
	old.Tags = []format.MetricMetaTag{{RawKind: kinds[v.Choice(2)]}}
	if v.NondetBool() {
		new_.Tags = []format.MetricMetaTag{{RawKind: kinds[v.Choice(2)]}}
	}
	new_.Description = "anything else may change"
	err := ai.CanEditMetric(false, old, new_)
	oldRaw := old.Tags[0].RawKind != ""
	newRaw := len(new_.Tags) > 0 && new_.Tags[0].RawKind != ""
	same := v.Or(old.Weight == new_.Weight, v.And(old.Weight == 0, new_.Weight == 1))
	same = v.And(same, v.And(old.PreKeyFrom == new_.PreKeyFrom, old.PreKeyOnly == new_.PreKeyOnly))
	same = v.And(same, v.And(old.SkipMaxHost == new_.SkipMaxHost, v.And(old.SkipMinHost == new_.SkipMinHost, old.SkipSumSquare == new_.SkipSumSquare)))
	same = v.And(same, v.And(old.ShardStrategy == new_.ShardStrategy, v.And(old.ShardNum == new_.ShardNum, v.And(old.ShardFixedKey == new_.ShardFixedKey,
		v.And(old.ShardFixedKey2 == new_.ShardFixedKey2, old.ShardFixedKey2Timestamp == new_.ShardFixedKey2Timestamp)))))
	same = v.And(same, oldRaw == newRaw)
	v.Assert("C30.edit.allowed_iff_no_protected_attribute_changes", (err == nil) == same)
	v.Reach("C30.edit.attrs.end")
}
