//go:build verif

package vkuth

import (
	"time"

	"github.com/golang-jwt/jwt/v4"

	v "github.com/VKCOM/statshouse/internal/zzverif"
)

// Claims.Valid over arbitrary instants: valid exactly when exp is present and not more than 5 s in
// the past, iat is present and not more than 5 s in the future, nbf (if present) is not in the
// future, the issuer is vkuth and the user is non-empty.
func Harness_C30_claims_window() {
	now := v.NondetIntRange(1_000_000_000, 2_000_000_000)
	c := &Claims{RegisteredClaims: &jwt.RegisteredClaims{}, now: time.Unix(now, 0)}
	hasExp, hasIat, hasNbf := v.NondetBool(), v.NondetBool(), v.NondetBool()
	exp := v.NondetIntRange(1_000_000_000, 2_000_000_000)
	iat := v.NondetIntRange(1_000_000_000, 2_000_000_000)
	nbf := v.NondetIntRange(1_000_000_000, 2_000_000_000)
	if hasExp {
		c.ExpiresAt = jwt.NewNumericDate(time.Unix(exp, 0))
	}
	if hasIat {
		c.IssuedAt = jwt.NewNumericDate(time.Unix(iat, 0))
	}
	if hasNbf {
		c.NotBefore = jwt.NewNumericDate(time.Unix(nbf, 0))
	}
	c.Issuer = []string{"vkuth", "other", ""}[v.Choice(3)]
	c.Data.User = []string{"user", ""}[v.Choice(2)]
	// A token without exp is rejected by a run-time panic, not by an error: Valid() formats its
	// "expired by" message from the nil ExpiresAt. Either way the token is not accepted, which is what
	// the property states; the panic itself is noted in DESIGN.md as a robustness observation.
	var err error
	panicked := false
	func() {
		defer func() {
			if recover() != nil {
				panicked = true
			}
		}()
		err = c.Valid()
	}()
	if panicked {
		v.Assert("C30.claims.panic_only_without_exp", !hasExp)
		v.Reach("C30.claims.end")
		return
	}
	want := hasExp && hasIat && c.Issuer == "vkuth" && c.Data.User != ""
	wantT := v.And(now-5 < exp, iat <= now+5)
	if hasNbf {
		wantT = v.And(wantT, nbf <= now)
	}
	if want {
		v.Assert("C30.claims.valid_iff_inside_window_with_5s_tolerance", (err == nil) == wantT)
	} else {
		v.Assert("C30.claims.missing_claim_wrong_issuer_or_no_user_rejected", err != nil)
	}
	v.Reach("C30.claims.end")
}

// only bits carrying the application prefix are granted, with the prefix removed
func Harness_C30_strip_bits() {
	n := v.Choice(8) // 0..7 bytes: long enough for a foreign application whose name extends ours ("shx:ab")
	bit := v.NondetString(n)
	got := stripFullBit(bit, "sh")
	if n >= 3 && bit[0] == 's' && bit[1] == 'h' && bit[2] == ':' {
		v.Assert("C30.bits.app_bit_kept_without_prefix", got == bit[3:])
	} else {
		v.Assert("C30.bits.foreign_bit_dropped", got == "")
	}
	v.Reach("C30.bits.end")
}
