//go:build verif

package metajournal

import (
	"github.com/VKCOM/statshouse/internal/data_model"
	"github.com/VKCOM/statshouse/internal/data_model/gen2/tlmetadata"
	"github.com/VKCOM/statshouse/internal/format"
	"github.com/VKCOM/statshouse/internal/vkgo/basictl"
	v "github.com/VKCOM/statshouse/internal/zzverif"
)

// names over the alphabet {a,b}, 1..2 bytes: renames, swaps, prefixes and re-use of freed names all occur
func c20Name() string {
	n := 1 + v.Choice(2)
	b := v.NondetBytes(n)
	for _, c := range b {
		v.Assume(v.Or(c == 'a', c == 'b'))
	}
	return string(b)
}

type c20Entity struct {
	typ     int32
	id      int64
	name    string
	disable bool
	version int64 // 0 = does not exist yet
}

type c20Replica struct {
	j  *JournalFast
	ms *MetricsStorage
}

var c20Compact bool

// Model standing in for compactJournalEvent in the compact harnesses: metric events whose Data is
// already in compact form (our "{}" events) are kept with metadata, Unused and UpdateTime cleared,
// exactly what the real function does to them; its JSON re-encoding (encoding/json, reflection)
// is not interpretable and is outside the claim.
func c20CompactModel(event *tlmetadata.Event) (bool, error) {
	switch event.EventType {
	case format.DashboardEvent, format.PromConfigEvent:
		return false, nil
	case format.MetricEvent:
		event.ClearMetadata()
		event.Unused = 0
		event.UpdateTime = 0
	}
	return true, nil
}

func c20NewReplica() *c20Replica {
	ms := MakeMetricsStorage(nil)
	j := MakeJournalFast(nil, 0, c20Compact, []ApplyEvent{ms.ApplyEvent})
	return &c20Replica{j: j, ms: ms}
}

// one delivery: what getJournalDiffLocked3 of the source returns for the replica's loader version,
// applied through applyUpdate (journal) and ApplyEvent (indexes)
func (r *c20Replica) sync(src *JournalFast) {
	var ret tlmetadata.GetJournalResponsenew
	if c20MaxItems == 0 {
		src.getJournalDiffLocked3(r.j.loaderVersion, &ret)
		r.j.applyUpdate(ret.Events, ret.CurrentVersion, nil)
		return
	}
	// partial deliveries: responses limited to a few items / bytes, repeated while the replica is behind;
	// a response to a replica that is behind always carries at least one event (else it would wait forever)
	for round := 0; round < 6 && r.j.loaderVersion < src.currentVersion; round++ {
		src.getJournalDiffLocked3Limits(r.j.loaderVersion, &ret, c20MaxItems, c20MaxBytes)
		v.Assert("C20.partial.response_to_a_replica_behind_is_not_empty", len(ret.Events) > 0)
		if len(ret.Events) == 0 {
			break
		}
		r.j.applyUpdate(ret.Events, ret.CurrentVersion, nil)
	}
}

// response limits for the partial-delivery harness (0 = the production limits)
var c20MaxItems, c20MaxBytes int

func c20Event(e *c20Entity) tlmetadata.Event {
	data := "{}"
	if e.typ == format.MetricsGroupEvent {
		data = `{"weight":1}`
		if e.disable {
			data = `{"weight":1,"disable":true}`
		}
	}
	ev := tlmetadata.Event{Id: e.id, Name: e.name, EventType: e.typ, Version: e.version, Data: data}
	ev.SetNamespaceId(0) // as the metadata engine sends it (getJournalDiffLocked3 re-sets the same bit)
	return ev
}

// History of `steps` edits over 2 metrics and (optionally) 1 group on a source journal; replica 1
// syncs after an arbitrary subset of the steps, replica 2 only at the end. At the end both hold the
// source's latest version of each entity, name look-ups return the metric that holds the name,
// group assignment is the longest matching enabled group prefix, and the state hashes agree.
func c20History(steps int, withGroup bool) {
	src := MakeJournalFast(nil, 0, false, nil)
	r1, r2 := c20NewReplica(), c20NewReplica()
	ents := []*c20Entity{
		{typ: format.MetricEvent, id: 1},
		{typ: format.MetricEvent, id: 2},
	}
	if withGroup {
		ents = append(ents, &c20Entity{typ: format.MetricsGroupEvent, id: 1})
	}
	var scratch []byte
	for t := 1; t <= steps; t++ {
		e := ents[v.Choice(len(ents))]
		name := c20Name()
		// the metadata engine keeps names unique per entity type
		for _, o := range ents {
			if o != e && o.typ == e.typ && o.version != 0 {
				v.Assume(o.name != name)
			}
		}
		e.name = name
		e.version = int64(t)
		if e.typ == format.MetricsGroupEvent {
			e.disable = v.NondetBool()
		}
		scratch = src.addEventLocked(scratch, c20Event(e))
		src.finishUpdateLocked()
		if t < steps && v.NondetBool() {
			r1.sync(src)
		}
	}
	r1.sync(src)
	r2.sync(src)

	for ri, r := range []*c20Replica{r1, r2} {
		tag := []string{"r1", "r2"}[ri]
		nMetrics := 0
		for _, e := range ents {
			if e.version == 0 {
				continue
			}
			switch e.typ {
			case format.MetricEvent:
				nMetrics++
				m := r.ms.GetMetaMetric(int32(e.id))
				v.Assert("C20."+tag+".metric_present", m != nil)
				if m == nil {
					continue
				}
				if !c20Compact { // a compact journal skips re-deliveries whose content is unchanged: the version may lag
					v.Assert("C20."+tag+".metric_latest_version", m.Version == e.version)
				}
				v.Assert("C20."+tag+".metric_latest_name", m.Name == e.name)
				byName := r.ms.GetMetaMetricByName(e.name)
				v.Assert("C20."+tag+".lookup_by_current_name_finds_metric", byName != nil)
				if byName != nil {
					v.Assert("C20."+tag+".lookup_by_current_name_returns_holder", byName.MetricID == int32(e.id))
				}
				// group = enabled user group with the longest matching prefix, else default
				want := int32(format.BuiltinGroupIDDefault)
				if withGroup {
					g := ents[2]
					if g.version != 0 && !g.disable && len(g.name) <= len(e.name) && e.name[:len(g.name)] == g.name {
						want = int32(g.id)
					}
				}
				v.Assert("C20."+tag+".metric_group", m.GroupID == want)
			case format.MetricsGroupEvent:
				g := r.ms.GetGroup(int32(e.id))
				v.Assert("C20."+tag+".group_present", g != nil)
				if g != nil {
					v.Assert("C20."+tag+".group_latest", v.And(v.Or(c20Compact, g.Version == e.version), g.Name == e.name))
				}
			}
		}
		// nothing else is in the name index: every entry belongs to a live metric under its current name
		r.ms.mu.RLock()
		v.Assert("C20."+tag+".name_index_size", len(r.ms.metricsByName) == nMetrics)
		v.Assert("C20."+tag+".id_index_size", len(r.ms.metricsByID) == nMetrics)
		r.ms.mu.RUnlock()
		cv, _ := r.j.VersionHash()
		if !c20Compact {
			v.Assert("C20."+tag+".journal_version", cv == src.currentVersion)
		}
		v.Assert("C20."+tag+".loader_version", r.j.loaderVersion == src.currentVersion)
		v.Assert("C20."+tag+".journal_size", len(r.j.journal) == len(src.journal))
	}
	if !c20Compact { // compact replicas hash the compacted events, the source the original ones
		v.Assert("C20.state_hash_r1_eq_source", r1.j.stateHash == src.stateHash)
	}
	v.Assert("C20.state_hash_r1_eq_r2", r1.j.stateHash == r2.j.stateHash)
	v.Reach("C20.end")
}

func Harness_C20_compact_3steps() {
	c20Compact = true
	c20History(3, false)
}
func Harness_C20_compact_4steps() {
	c20Compact = true
	c20History(4, false)
}
func Harness_C20_metrics_3steps()        { c20History(3, false) }

// the same history delivered in partial responses: at most 1 or 2 items per response, byte budget 1
// (smaller than any event), 100 (about one event) or 1 MB
func Harness_C20_metrics_3steps_partial() {
	c20MaxItems = 1 + v.Choice(2)
	c20MaxBytes = []int{1, 100, 1 << 20}[v.Choice(3)]
	c20History(3, false)
}
func Harness_C20_metrics_group_3steps()  { c20History(3, true) }
func Harness_C20_metrics_4steps()        { c20History(4, false) }
func Harness_C20_metrics_group_4steps()  { c20History(4, true) }

// Save/reload of a journal file that may have lost its tail. The file has the layout save() writes for
// a journal too big for one chunk - first chunk: loader version, last event version, the first k events;
// second chunk: the remaining events (save() itself only splits after 256 KiB, so the two chunks are
// written here through the same ChunkedStorage2 calls) - and is cut at an arbitrary byte. The replica
// loaded from the cut file, then synced with the source, ends exactly like a replica that never
// restarted: same journal, same version, same state hash, every metric found by id and by name.
func Harness_C20_reload_truncated() {
	src := MakeJournalFast(nil, 0, false, nil)
	names := []string{"a", "b", "ab", "bb"}
	ids := []int64{1, 2, 3, 1 + int64(v.Choice(3))} // the 4th edit renames one of the three metrics
	var events []tlmetadata.Event
	var scratch []byte
	for t := 0; t < 4; t++ {
		ev := c20Event(&c20Entity{typ: format.MetricEvent, id: ids[t], name: names[t], version: int64(t + 1)})
		scratch = src.addEventLocked(scratch, ev)
		src.finishUpdateLocked()
	}
	// the saved journal, in order (what save() iterates)
	src.order.Ascend(func(o journalOrder) bool {
		events = append(events, src.journal[o.key].Event)
		return true
	})
	v.Assert("C20.reload.source_has_three_entries", len(events) == 3)
	k := 1 + v.Choice(2) // events in the first chunk
	var file []byte
	w := data_model.NewChunkedStorage2Slice(&file)
	if b, err := w.ReadNext(data_model.ChunkedMagicJournal); err != nil || len(b) != 0 {
		panic("fresh storage is not empty")
	}
	chunk := w.StartWriteChunk(data_model.ChunkedMagicJournal, 0)
	chunk = basictl.LongWrite(chunk, src.currentVersion)
	chunk = basictl.LongWrite(chunk, src.currentVersion)
	for _, e := range events[:k] {
		chunk = e.WriteTL1Boxed(chunk)
	}
	if err := w.FinishWriteChunk(chunk); err != nil {
		panic(err.Error())
	}
	firstChunk := len(file)
	chunk = w.StartWriteChunk(data_model.ChunkedMagicJournal, 0)
	for _, e := range events[k:] {
		chunk = e.WriteTL1Boxed(chunk)
	}
	if err := w.FinishWriteChunk(chunk); err != nil {
		panic(err.Error())
	}
	full := len(file)
	cut := []int{full, firstChunk, firstChunk + 7, firstChunk - 1, 0}[v.Choice(5)]
	trunc := append([]byte(nil), file[:cut]...)
	ms := MakeMetricsStorage(nil)
	j, err := LoadJournalFastSlice(&trunc, 0, false, []ApplyEvent{ms.ApplyEvent})
	if cut == full {
		v.Assert("C20.reload.whole_file_loads_clean", err == nil && len(j.journal) == 3 && j.loaderVersion == src.currentVersion)
		v.Reach("C20.reload.whole")
	}
	if cut == firstChunk {
		v.Assert("C20.reload.first_chunk_events_loaded", len(j.journal) == k)
		v.Reach("C20.reload.cut_at_chunk_boundary")
	}
	v.Assert("C20.reload.loader_version_not_beyond_loaded_events_unless_complete", j.loaderVersion == j.currentVersion || len(j.journal) == 3)
	r := &c20Replica{j: j, ms: ms}
	r.sync(src)
	v.Assert("C20.reload.journal_complete_after_sync", len(r.j.journal) == len(src.journal))
	v.Assert("C20.reload.version_after_sync", r.j.currentVersion == src.currentVersion && r.j.loaderVersion == src.currentVersion)
	v.Assert("C20.reload.state_hash_eq_source", r.j.stateHash == src.stateHash)
	for t := 0; t < 3; t++ {
		e := events[t]
		m := ms.GetMetaMetric(int32(e.Id))
		v.Assert("C20.reload.metric_present_with_latest_name", m != nil && m.Name == e.Name && m.Version == e.Version)
		bn := ms.GetMetaMetricByName(e.Name)
		v.Assert("C20.reload.lookup_by_name_returns_holder", bn != nil && bn.MetricID == int32(e.Id))
	}
	v.Reach("C20.reload.end")
}

// Two user groups competing for one metric: metric "ax" and group 10 named "a" exist from the start
// (replica 1 has seen both); 3 edits rename either
// group (10 or 20) to a name from {"a", "b", "c"} (unique among groups, so a name freed by one group can
// be taken by the other); replica 1 syncs after an arbitrary subset of the edits, replica 2 only at the
// end. On both the metric's group is the enabled group whose name is the longest prefix of "ax" (the
// group currently called "a"), else the default group; both replicas agree.
func Harness_C20_two_groups_3steps() {
	src := MakeJournalFast(nil, 0, false, nil)
	r1, r2 := c20NewReplica(), c20NewReplica()
	var scratch []byte
	metric := &c20Entity{typ: format.MetricEvent, id: 1, name: "ax", version: 1}
	scratch = src.addEventLocked(scratch, c20Event(metric))
	src.finishUpdateLocked()
	r1.sync(src)
	groups := []*c20Entity{{typ: format.MetricsGroupEvent, id: 10}, {typ: format.MetricsGroupEvent, id: 20}}
	// group 10 starts as "a" and replica 1 has seen it
	groups[0].name, groups[0].version = "a", 2
	scratch = src.addEventLocked(scratch, c20Event(groups[0]))
	src.finishUpdateLocked()
	r1.sync(src)
	for t := 3; t <= 5; t++ {
		g := groups[v.Choice(2)]
		name := []string{"a", "b", "c"}[v.Choice(3)]
		for _, o := range groups {
			if o != g && o.version != 0 {
				v.Assume(o.name != name)
			}
		}
		g.name, g.version = name, int64(t)
		scratch = src.addEventLocked(scratch, c20Event(g))
		src.finishUpdateLocked()
		if t < 5 && v.NondetBool() {
			r1.sync(src)
		}
	}
	r1.sync(src)
	r2.sync(src)
	want := int32(format.BuiltinGroupIDDefault)
	for _, g := range groups {
		if g.version != 0 && g.name == "a" {
			want = int32(g.id)
		}
	}
	for ri, r := range []*c20Replica{r1, r2} {
		tag := []string{"r1", "r2"}[ri]
		m := r.ms.GetMetaMetric(1)
		v.Assert("C20.groups."+tag+".metric_present", m != nil)
		if m != nil {
			v.Assert("C20.groups."+tag+".metric_in_the_group_holding_its_prefix", m.GroupID == want)
		}
		for _, g := range groups {
			if g.version != 0 {
				got := r.ms.GetGroup(int32(g.id))
				v.Assert("C20.groups."+tag+".group_latest_name", got != nil && got.Name == g.name)
			}
		}
	}
	v.Assert("C20.groups.state_hash_r1_eq_r2", r1.j.stateHash == r2.j.stateHash)
	if want != int32(format.BuiltinGroupIDDefault) {
		v.Reach("C20.groups.assigned")
	}
	v.Reach("C20.groups.end")
}
