//go:build verif

package data_model

import (
	"github.com/VKCOM/statshouse/internal/data_model/gen2/tlstatshouse"
	"github.com/VKCOM/statshouse/internal/format"
	v "github.com/VKCOM/statshouse/internal/zzverif"
	"pgregory.net/rand"
)

// what ReadTL1 of the bytes variant yields for a value written from the string variant: same
// fields, strings as byte slices (the TL codec itself is the subject of C14)
func c02ToBytes(t *tlstatshouse.MultiValue) tlstatshouse.MultiValueBytes {
	return tlstatshouse.MultiValueBytes{
		Counter: t.Counter, ValueMin: t.ValueMin, ValueMax: t.ValueMax, ValueSum: t.ValueSum,
		ValueSumSquare: t.ValueSumSquare, Uniques: []byte(t.Uniques), Centroids: t.Centroids,
		MaxHostTag: t.MaxHostTag, MinHostTag: t.MinHostTag, MaxCounterHostTag: t.MaxCounterHostTag,
		MaxHostStag: []byte(t.MaxHostStag), MinHostStag: []byte(t.MinHostStag), MaxCounterHostStag: []byte(t.MaxCounterHostStag),
	}
}

func c02Host() TagUnion {
	switch v.Choice(4) {
	case 0:
		return TagUnion{}
	case 1:
		return TagUnion{I: 11}
	case 2:
		return TagUnion{I: 22}
	}
	return TagUnion{S: "h"}
}

// effective host on the aggregator: an empty host is filled in with the sender's host
func c02Eff(h, sender TagUnion) TagUnion {
	if h.I == 0 && len(h.S) == 0 {
		return sender
	}
	return h
}

// One agent row built from `n` events (counter-only, value, or unique; value from {-3,0,5} so that
// sums stay linear in the symbolic counts 1..8; host absent / int / string), sent with sample
// factor sf in {1,2,3} through MultiValueToTL and merged into a fresh aggregator value with
// MergeWithTL2: count*sf, min, max, sum*sf, sumsq*sf, the three host attributions (empty = sender's
// host) and the unique set arrive unchanged.
func c02Transfer(n int, allowUnique bool) {
	rng := rand.New()
	var mv MultiValue
	kinds := 2
	if allowUnique {
		kinds = 3
	}
	for e := 0; e < n; e++ {
		host := c02Host()
		cnt := v.NondetFloatInt(1, 8)
		switch v.Choice(kinds) {
		case 0:
			mv.AddCounterHost(rng, cnt, host)
		case 1:
			val := []float64{-3, 0, 5}[v.Choice(3)]
			mv.AddValueCounterHost(rng, val, cnt, host)
		case 2:
			mv.ApplyUnique(rng, []int64{[]int64{7, -5}[v.Choice(2)]}, cnt, host)
		}
	}
	sf := []float64{1, 2, 3}[v.Choice(3)]
	meta := &format.MetricMetaValue{}
	var item tlstatshouse.MultiValue
	var fm uint32
	mv.MultiValueToTL(meta, &item, sf, &fm, nil)
	wire := c02ToBytes(&item)
	sender := TagUnion{I: 99}
	var agg MultiValue
	st := agg.MergeWithTL2(rng, &wire, fm, sender, AggregatorPercentileCompression)
	v.Assert("C02.value.accepted", st == 0)
	v.Assert("C02.value.count_times_sf", agg.Value.counter == mv.Value.counter*sf)
	v.Assert("C02.value.valueset", agg.Value.ValueSet == mv.Value.ValueSet)
	if mv.Value.ValueSet {
		v.Assert("C02.value.min", agg.Value.ValueMin == mv.Value.ValueMin)
		v.Assert("C02.value.max", agg.Value.ValueMax == mv.Value.ValueMax)
		v.Assert("C02.value.sum_times_sf", agg.Value.ValueSum == mv.Value.ValueSum*sf)
		v.Assert("C02.value.sumsq_times_sf", agg.Value.ValueSumSquare == mv.Value.ValueSumSquare*sf)
		v.Assert("C02.value.max_host", agg.Value.MaxHostTag == c02Eff(mv.Value.MaxHostTag, sender))
	}
	// Known finding (recorded, not repaired): the wire format spells "same as the max host" by
	// omitting a host field, so an EMPTY min / max-count host (event without _h tag = the sending
	// agent itself) next to a non-empty max host cannot be expressed and arrives as the max host.
	empty := func(h TagUnion) bool { return h.I == 0 && len(h.S) == 0 }
	shape := !empty(mv.Value.MaxHostTag) && (empty(mv.Value.MaxCounterHostTag) || (mv.Value.ValueSet && empty(mv.Value.MinHostTag)))
	v.KnownShape("C02-empty-host-next-to-nonempty-max-host", shape)
	if mv.Value.ValueSet {
		v.Assert("C02.value.min_host", agg.Value.MinHostTag == c02Eff(mv.Value.MinHostTag, sender))
	}
	v.Assert("C02.value.max_count_host", agg.Value.MaxCounterHostTag == c02Eff(mv.Value.MaxCounterHostTag, sender))
	// unique set
	v.Assert("C02.unique.items", agg.HLL.ItemsCount() == mv.HLL.ItemsCount())
	for i := 0; mv.HLL.buf != nil && i < mv.HLL.bufSize(); i++ {
		if x := mv.HLL.buf[i]; x != 0 {
			found := false
			for j := 0; agg.HLL.buf != nil && j < agg.HLL.bufSize(); j++ {
				found = found || agg.HLL.buf[j] == x
			}
			v.Assert("C02.unique.hash_arrives", found)
		}
	}
	v.Reach("C02.value.end")
}

func Harness_C02_value_1event()         { c02Transfer(1, true) }
func Harness_C02_value_2events()        { c02Transfer(2, false) }
func Harness_C02_value_unique_2events() { c02Transfer(2, true) }
func Harness_C02_value_3events()        { c02Transfer(3, false) }

// Key transport: tags (3 arbitrary int tags at positions 0, 1, 15), metric and timestamp survive
// TLMultiItemFromKey -> KeyFromStatshouseMultiItem; the timestamp is omitted when it equals the
// bucket time and restored from it, and clamped to the bucket time (with a warning) only when it
// is in the bucket's future or older than the belief window.
func Harness_C02_key_transport() {
	var k Key
	k.Metric = v.NondetI32()
	k.Tags[0] = v.NondetI32()
	k.Tags[1] = v.NondetI32()
	k.Tags[15] = v.NondetI32()
	bucket := v.NondetU32Range(1, 1<<31)
	k.Timestamp = v.NondetU32Range(1, 1<<31)
	item := k.TLMultiItemFromKey(bucket)
	wire := tlstatshouse.MultiItemBytes{FieldsMask: item.FieldsMask, Metric: item.Metric, Keys: item.Keys, T: item.T}
	got, warn := KeyFromStatshouseMultiItem(&wire, bucket)
	v.Assert("C02.key.metric", got.Metric == k.Metric)
	v.Assert("C02.key.tags", got.Tags == k.Tags)
	inWindow := v.And(int64(k.Timestamp) <= int64(bucket), int64(k.Timestamp) >= int64(bucket)-BelieveTimestampWindow)
	if inWindow {
		v.Assert("C02.key.timestamp_kept", got.Timestamp == k.Timestamp)
		v.Assert("C02.key.no_warning", warn == 0)
	} else {
		v.Assert("C02.key.timestamp_clamped_to_bucket", got.Timestamp == bucket)
		v.Assert("C02.key.clamp_warning", warn != 0)
	}
	v.Reach("C02.key.end")
}
