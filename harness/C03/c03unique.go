//go:build verif

package data_model

import (
	"bytes"

	v "github.com/VKCOM/statshouse/internal/zzverif"
)

// unique state: 0..3 values from a concrete list (equal values, the value whose 32-bit hash is 0
// excluded) inserted, serialized for ClickHouse and read back by the API's reader: same item set,
// same zero-item flag and skip degree, and the estimate is exact: the number of distinct values
func Harness_C03_unique_roundtrip_exact() {
	vals := []uint64{1, 2, 1 << 40, 12345678901234}
	var u ChUnique
	n := v.Choice(4)
	var ins []uint64
	for k := 0; k < n; k++ {
		x := vals[v.Choice(len(vals))]
		ins = append(ins, x)
		u.Insert(x)
	}
	distinct := 0
	for k, x := range ins {
		dup := false
		for j := 0; j < k; j++ {
			dup = dup || ins[j] == x
		}
		if !dup {
			distinct++
		}
	}
	v.Assert("C03.unique.estimate_exact_below_limit", u.Size(false) == uint64(distinct))
	wire := u.MarshallAppend(nil)
	var back ChUnique
	err := back.ReadFrom(bytes.NewReader(wire))
	v.Assert("C03.unique.decodes", err == nil)
	v.Assert("C03.unique.same_count_degree_zero_flag", back.itemsCount == u.itemsCount && back.skipDegree == u.skipDegree && back.hasZeroItem == u.hasZeroItem)
	v.Assert("C03.unique.same_estimate", back.Size(false) == u.Size(false))
	for i := 0; u.buf != nil && i < u.bufSize(); i++ {
		if x := u.buf[i]; x != 0 {
			found := false
			for j := 0; j < back.bufSize(); j++ {
				found = found || back.buf[j] == x
			}
			v.Assert("C03.unique.every_hash_read_back", found)
		}
	}
	// arbitrary wire bytes of an item: the reader stores what the writer would write back
	v.Reach("C03.unique.end")
}
