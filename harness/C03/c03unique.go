//go:build verif

package data_model

import (
	"bytes"

	v "github.com/VKCOM/statshouse/internal/zzverif"
)

// unique state: 0..3 values from a concrete list (equal values and the value whose 32-bit hash is 0
// included) inserted, serialized for ClickHouse and read back by the API's reader: same item set,
// same zero-item flag and skip degree, and the estimate is exact: the number of distinct values
func Harness_C03_unique_roundtrip_exact() {
	vals := []uint64{1, 2, 1 << 40, 12345678901234, 0} // 0 is the value whose 32-bit hash is 0 (kept as a flag, not in the table)
	var u ChUnique
	n := v.Choice(4)
	var ins []uint64
	for k := 0; k < n; k++ {
		x := vals[v.Choice(len(vals))]
		ins = append(ins, x)
		u.Insert(x)
	}
	distinct := 0
	for k, x := range ins {
		dup := false
		for j := 0; j < k; j++ {
			dup = dup || ins[j] == x
		}
		if !dup {
			distinct++
		}
	}
	v.Assert("C03.unique.estimate_exact_below_limit", u.Size(false) == uint64(distinct))
	wire := u.MarshallAppend(nil)
	var back ChUnique
	err := back.ReadFrom(bytes.NewReader(wire))
	v.Assert("C03.unique.decodes", err == nil)
	v.Assert("C03.unique.same_count_degree_zero_flag", back.itemsCount == u.itemsCount && back.skipDegree == u.skipDegree && back.hasZeroItem == u.hasZeroItem)
	v.Assert("C03.unique.same_estimate", back.Size(false) == u.Size(false))
	v.Assert("C03.unique.decoded_state_writes_back_the_same_bytes", bytes.Equal(back.MarshallAppend(nil), wire))
	for i := 0; u.buf != nil && i < u.bufSize(); i++ {
		if x := u.buf[i]; x != 0 {
			found := false
			for j := 0; j < back.bufSize(); j++ {
				found = found || back.buf[j] == x
			}
			v.Assert("C03.unique.every_hash_read_back", found)
		}
	}
	// arbitrary wire bytes of an item: the reader stores what the writer would write back
	v.Reach("C03.unique.end")
}

// Growth of the exact-mode hash table (16 -> 32 slots, the step every row with more than 8 distinct
// values takes) from an arbitrary collision layout: two (deep: three) arbitrary distinct non-zero 32-bit
// hashes (any slots, so chains may collide and wrap around the end of the table) are inserted first, then
// seven (six) fixed hashes; the ninth insert doubles the table. Afterwards the sketch holds exactly 9 items, every
// hash is found again (a second contribution repeating any of them changes nothing), so the state
// written for the row still estimates exactly the number of distinct values.
func Harness_C03_unique_growth()      { c03Growth(2) }
func Harness_C03_unique_growth_deep() { c03Growth(3) }

func c03Growth(nsym int) {
	var u ChUnique
	u.Reset()
	var all []uint32
	for i := 0; i < nsym; i++ {
		x := v.NondetU32()
		v.Assume(x != 0)
		for _, y := range all {
			v.Assume(x != y)
		}
		all = append(all, x)
	}
	for k := uint32(0); k < uint32(9-nsym); k++ {
		f := (k+2)<<uniquesHashBitsForSkip | 1
		for _, y := range all[:nsym] {
			v.Assume(f != y)
		}
		all = append(all, f)
	}
	for _, x := range all {
		u.insertHash(x)
	}
	v.Assert("C03.unique.growth.table_doubled", u.sizeDegree == uniquesHashSetInitialSizeDegree+1 && len(u.buf) == 32)
	v.Assert("C03.unique.growth.count_is_distinct_count", u.ItemsCount() == 9 && u.Size(false) == 9)
	stored := 0
	for _, c := range u.buf {
		stored += v.B2I(c != 0)
	}
	v.Assert("C03.unique.growth.nine_cells_used", stored == 9)
	for _, x := range all {
		u.insertHash(x)
	}
	v.Assert("C03.unique.growth.repeated_values_are_found", u.ItemsCount() == 9 && u.sizeDegree == uniquesHashSetInitialSizeDegree+1)
	v.Reach("C03.unique.growth.done")
}
