//go:build verif

package aggregator

import (
	"bytes"
	"encoding/binary"
	"math"

	"github.com/VKCOM/statshouse/internal/data_model"
	"github.com/VKCOM/statshouse/internal/format"
	v "github.com/VKCOM/statshouse/internal/zzverif"
)

// the arg-min/max host state the aggregator writes is read back by the API's decoder into the same
// host (int or string) and the same float32, bit for bit; an empty host reads back as empty
func Harness_C03_argminmax_roundtrip() {
	var tag data_model.TagUnion
	switch v.Choice(3) {
	case 0: // empty
	case 1:
		tag.I = v.NondetI32()
		v.Assume(tag.I != 0)
	case 2:
		tag.S = v.NondetString(1 + v.Choice(2))
		for i := 0; i < len(tag.S); i++ {
			v.Assume(tag.S[i] != 0) // host names are text
		}
	}
	val := v.NondetF32()
	prefix := v.NondetBytes(v.Choice(2)) // the row written so far
	res := appendArgMinMaxTag(append([]byte(nil), prefix...), tag, val)
	same := true
	for j := range prefix {
		same = v.And(same, res[j] == prefix[j])
	}
	v.Assert("C03.arg.row_prefix_untouched", same)
	var arg data_model.ArgMinMaxStringFloat32
	rd := bytes.NewReader(res[len(prefix):])
	_, err := arg.ReadFrom(rd, nil)
	v.Assert("C03.arg.decodes", err == nil)
	v.Assert("C03.arg.consumes_exactly_what_was_written", rd.Len() == 0)
	v.Assert("C03.arg.int_host", arg.AsInt32 == tag.I)
	v.Assert("C03.arg.string_host", arg.AsString == tag.S)
	if !tag.Empty() {
		v.Assert("C03.arg.value_bits", math.Float32bits(arg.Val) == math.Float32bits(val))
	}
	v.Reach("C03.arg.end")
}

// the six aggregates are written as bit-exact doubles in the documented order (count, max_count = count, min, max, sum, sumsq)
func Harness_C03_aggregates_layout() {
	c, mi, ma, su, su2 := v.NondetF64(), v.NondetF64(), v.NondetF64(), v.NondetF64(), v.NondetF64()
	res := appendAggregates(nil, c, mi, ma, su, su2)
	v.Assert("C03.agg.length", len(res) == 48)
	get := func(k int) uint64 { return binary.LittleEndian.Uint64(res[8*k:]) }
	v.Assert("C03.agg.count", get(0) == math.Float64bits(c) && get(1) == math.Float64bits(c))
	v.Assert("C03.agg.min_max", get(2) == math.Float64bits(mi) && get(3) == math.Float64bits(ma))
	v.Assert("C03.agg.sums", get(4) == math.Float64bits(su) && get(5) == math.Float64bits(su2))
	v.Reach("C03.agg.end")
}

// per-key aggregation: two contributions land in one row exactly when their key bytes are equal
// (metric, timestamp, 2 arbitrary int tags, 1 string tag of 0..1 bytes); different keys give two rows
func Harness_C03_one_row_per_key() {
	var b data_model.MultiItemMap
	mk := func() data_model.Key {
		var k data_model.Key
		k.Metric = int32(1 + v.Choice(2))
		k.Timestamp = uint32(100 + v.Choice(2))
		k.Tags[1] = v.NondetI32()
		k.Tags[2] = v.NondetI32()
		k.STags[3] = v.NondetString(v.Choice(2))
		if len(k.STags[3]) == 1 {
			v.Assume(k.STags[3][0] != 0)
		}
		return k
	}
	k1, k2 := mk(), mk()
	i1, c1 := b.GetOrCreateMultiItem(&k1, nil, nil)
	i2, c2 := b.GetOrCreateMultiItem(&k2, nil, nil)
	equal := k1.Metric == k2.Metric && k1.Timestamp == k2.Timestamp && k1.Tags == k2.Tags && k1.STags == k2.STags
	v.Assert("C03.keys.first_creates", c1)
	if equal {
		v.Assert("C03.keys.equal_keys_share_one_row", i1 == i2 && !c2 && len(b.MultiItems) == 1)
	} else {
		v.Assert("C03.keys.different_keys_get_two_rows", i1 != i2 && c2 && len(b.MultiItems) == 2)
	}
	_ = format.MaxTags
	v.Reach("C03.keys.end")
}
