//go:build verif

package data_model

import (
	v "github.com/VKCOM/statshouse/internal/zzverif"
)

// c22Steps are the resolutions of the LOD tables (seconds); monthly steps are outside the claim.
var c22Steps = []int64{1, 5, 15, 60, 300, 900, 3600, 4 * 3600, 24 * 3600, 7 * 24 * 3600}

func c22Round(t, step, off int64) {
	r := roundTime(t, step, off)
	v.Assert("C22.round.le", r <= t)
	v.Assert("C22.round.lt_next", t < r+step)
	// aligned: (r+off) is a multiple of step (mathematical modulo, so test both signs)
	v.Assert("C22.round.aligned", (r+off)%step == 0)
	v.Assert("C22.round.idempotent", roundTime(r, step, off) == r)
	// monotone: a later instant never rounds to an earlier slot
	d := v.NondetIntRange(0, 1<<20)
	v.Assert("C22.round.monotone", roundTime(t+d, step, off) >= r)
	// StepForward/startOfLOD agree with roundTime for non-monthly steps
	v.Assert("C22.startOfLOD", startOfLOD(t, step, nil, off) == r)
	v.Assert("C22.stepForward", StepForward(r, step, nil) == r+step)
}

// every table resolution, t in +-2^40, offset in +-2^20 (Int mode)
func Harness_C22_round_table() {
	step := c22Steps[v.Choice(len(c22Steps))]
	t := v.NondetIntRange(-(1 << 40), 1<<40)
	off := v.NondetIntRange(-(1 << 20), 1<<20)
	c22Round(t, step, off)
	v.Reach("C22.round_table.end")
}

// mathDiv is floor division for positive divisors: q*b <= a < (q+1)*b
func Harness_C22_mathDiv() {
	a := v.NondetIntRange(-(1 << 40), 1<<40)
	b := v.NondetIntRange(1, 1000000)
	q := mathDiv(a, b)
	v.Assert("C22.mathDiv.lo", q*b <= a)
	v.Assert("C22.mathDiv.hi", a < (q+1)*b)
	v.Reach("C22.mathDiv.end")
}

// endOfLOD: the result is start + n*step, reaches end (or, with le, stops at the last slot
// that does not pass end), for up to 6 slots.
func Harness_C22_endOfLOD() {
	step := c22Steps[v.Choice(len(c22Steps))]
	start := v.NondetIntRange(-(1 << 40), 1<<40)
	span := v.NondetIntRange(0, 6)
	extra := v.NondetIntRange(0, 1<<20)
	v.Assume(extra < step)
	end := start + span*step - extra
	le := v.NondetBool()
	got, n := endOfLOD(start, step, end, le, nil)
	v.Assert("C22.endOfLOD.arith", got == start+int64(n)*step)
	v.Assert("C22.endOfLOD.n_bound", n >= 0 && int64(n) <= span)
	if le {
		v.Assert("C22.endOfLOD.le", got <= end || n == 0)
		v.Assert("C22.endOfLOD.le_max", got+step > end || got >= end)
	} else {
		v.Assert("C22.endOfLOD.covers", got >= end)
		v.Assert("C22.endOfLOD.tight", n == 0 || got-step < end)
	}
	v.Reach("C22.endOfLOD.end")
}
