//go:build verif

package data_model

import (
	"github.com/VKCOM/statshouse/internal/format"
	v "github.com/VKCOM/statshouse/internal/zzverif"
)

// c22Steps are the resolutions of the LOD tables (seconds); monthly steps are outside the claim.
var c22Steps = []int64{1, 5, 15, 60, 300, 900, 3600, 4 * 3600, 24 * 3600, 7 * 24 * 3600}

func c22Round(t, step, off int64) {
	r := roundTime(t, step, off)
	v.Assert("C22.round.le", r <= t)
	v.Assert("C22.round.lt_next", t < r+step)
	// aligned: (r+off) is a multiple of step (mathematical modulo, so test both signs)
	v.Assert("C22.round.aligned", (r+off)%step == 0)
	v.Assert("C22.round.idempotent", roundTime(r, step, off) == r)
	// monotone: a later instant never rounds to an earlier slot
	d := v.NondetIntRange(0, 1<<20)
	v.Assert("C22.round.monotone", roundTime(t+d, step, off) >= r)
	// StepForward/startOfLOD agree with roundTime for non-monthly steps
	v.Assert("C22.startOfLOD", startOfLOD(t, step, nil, off) == r)
	v.Assert("C22.stepForward", StepForward(r, step, nil) == r+step)
}

// every table resolution, t in +-2^40, offset in +-2^20 (Int mode)
func Harness_C22_round_table() {
	step := c22Steps[v.Choice(len(c22Steps))]
	t := v.NondetIntRange(-(1 << 40), 1<<40)
	off := v.NondetIntRange(-(1 << 20), 1<<20)
	c22Round(t, step, off)
	v.Reach("C22.round_table.end")
}

// mathDiv is floor division for positive divisors: q*b <= a < (q+1)*b
func Harness_C22_mathDiv() {
	a := v.NondetIntRange(-(1 << 40), 1<<40)
	b := v.NondetIntRange(1, 1000000)
	q := mathDiv(a, b)
	v.Assert("C22.mathDiv.lo", q*b <= a)
	v.Assert("C22.mathDiv.hi", a < (q+1)*b)
	v.Reach("C22.mathDiv.end")
}

// endOfLOD: the result is start + n*step, reaches end (or, with le, stops at the last slot
// that does not pass end), for up to 6 slots.
func Harness_C22_endOfLOD() {
	step := c22Steps[v.Choice(len(c22Steps))]
	start := v.NondetIntRange(-(1 << 40), 1<<40)
	span := v.NondetIntRange(0, 6)
	extra := v.NondetIntRange(0, 1<<20)
	v.Assume(extra < step)
	end := start + span*step - extra
	le := v.NondetBool()
	got, n := endOfLOD(start, step, end, le, nil)
	v.Assert("C22.endOfLOD.arith", got == start+int64(n)*step)
	v.Assert("C22.endOfLOD.n_bound", n >= 0 && int64(n) <= span)
	if le {
		v.Assert("C22.endOfLOD.le", got <= end || n == 0)
		v.Assert("C22.endOfLOD.le_max", got+step > end || got >= end)
	} else {
		v.Assert("C22.endOfLOD.covers", got >= end)
		v.Assert("C22.endOfLOD.tight", n == 0 || got-step < end)
	}
	v.Reach("C22.endOfLOD.end")
}

var c22QuerySteps = []int64{1, 5, 15, 60, 300, 900, 3600, 4 * 3600, 24 * 3600}

// GetTimescale as a whole for short range queries (UTC offsets, no location): requested step from the
// table, range of 1..6 steps plus an arbitrary sub-step remainder, ending an arbitrary 0..8 steps before
// one of the three LOD-switch ages (now, now-52h, now-33d) or now itself, whole-hour UTC offset, screen
// width 0 or 1..4, extend on/off, metric resolution 1 or 60. The axis strictly increases by exactly the
// step of the level each point belongs to, every point is aligned to its level's step, level steps come
// from the table and never grow toward the present, the point count is bounded, the requested range is
// covered from the reported start index to the end, and the per-level ranges of GetLODs are contiguous
// and coincide with the points.
func c22Timescale(step int64, maxSteps int64) {
	now := v.NondetIntRange(1_600_000_000, 1_700_000_000)
	edge := []int64{0, 52*3600 - 2, 33*86400 - 120}[v.Choice(3)]
	back := v.NondetIntRange(0, 8*step)
	end := now - edge + 4*step - back
	v.Assume(end <= now+step)
	k := v.NondetIntRange(1, maxSteps)
	r := v.NondetIntRange(0, step-1)
	start := end - k*step - r
	args := GetTimescaleArgs{Start: start, End: end, Step: step, TimeNow: now, Mode: RangeQuery}
	args.UTCOffset = 3600 * v.NondetIntRange(-12, 14)
	args.Extend = v.NondetBool()
	if v.NondetBool() {
		args.ScreenWidth = v.NondetIntRange(1, 4)
	}
	metric := &format.MetricMetaValue{Resolution: []int{1, 60}[v.Choice(2)]}
	args.QueryStat.Add(metric, 0)
	c22CheckAxis(args, metric, start, end, step)
}

func c22CheckAxis(args GetTimescaleArgs, metric *format.MetricMetaValue, start, end, step int64) {
	ts, err := GetTimescale(args)
	v.Assert("C22.ts.no_error", err == nil)
	if err != nil || len(ts.Time) == 0 {
		v.Assert("C22.ts.empty_axis_only_without_error", err != nil)
		return
	}
	n := len(ts.Time)
	v.Assert("C22.ts.point_count_bounded", n <= maxPoints+3)
	total := 0
	prevStep := int64(1 << 40)
	idx := 0
	lastStep := int64(0)
	for _, lod := range ts.LODs {
		inTable := false
		for _, s := range c22Steps {
			inTable = inTable || s == lod.Step
		}
		v.Assert("C22.ts.level_step_from_table", inTable)
		v.Assert("C22.ts.levels_get_finer_toward_present", lod.Step < prevStep)
		v.Assert("C22.ts.level_not_finer_than_requested", lod.Step >= step || lod.Step >= int64(metric.Resolution))
		prevStep = lod.Step
		v.Assert("C22.ts.level_nonempty", lod.Len > 0)
		for j := 0; j < lod.Len && idx < n; j++ {
			t := ts.Time[idx]
			v.Assert("C22.ts.point_aligned_to_its_step", (t+args.UTCOffset)%lod.Step == 0)
			if idx+1 < n {
				v.Assert("C22.ts.consecutive_points_differ_by_level_step", ts.Time[idx+1] == t+lod.Step)
			}
			idx++
		}
		total += lod.Len
		lastStep = lod.Step
	}
	v.Assert("C22.ts.levels_account_for_all_points", total == n)
	sx := ts.StartX
	// sx == n: the axis is empty (Timescale.Empty) - no whole point of the level starts inside the range
	v.Assert("C22.ts.start_index_in_range", sx >= 0 && sx <= n)
	if sx == n {
		v.Assert("C22.ts.empty_axis_only_when_no_point_starts_in_range", ts.Time[n-1] < start)
		v.Reach("C22.ts.empty_axis")
	}
	if sx >= 0 && sx < n {
		if args.Extend {
			// extend adds one point on each side: the start index may sit one whole step before the range
			v.Assert("C22.ts.start_covered_extend", ts.Time[sx] <= start && start < ts.Time[sx]+2*ts.LODs[0].Step)
		} else {
			v.Assert("C22.ts.start_covered", sx >= 1 && ts.Time[sx-1] < start && start <= ts.Time[sx])
		}
	}
	v.Assert("C22.ts.end_covered", ts.Time[n-1]+lastStep >= end)
	lods := ts.GetLODs(metric, 0)
	v.Assert("C22.ts.one_storage_range_per_level", len(lods) == len(ts.LODs))
	if len(lods) == len(ts.LODs) {
		at := 0
		for i, l := range lods {
			v.Assert("C22.ts.storage_range_starts_at_its_first_point", l.FromSec == ts.Time[at] && l.StepSec == ts.LODs[i].Step)
			at += ts.LODs[i].Len
			if i+1 < len(lods) {
				v.Assert("C22.ts.storage_ranges_contiguous", l.ToSec == lods[i+1].FromSec)
			} else {
				v.Assert("C22.ts.last_storage_range_ends_after_last_point", l.ToSec == ts.Time[n-1]+l.StepSec)
			}
		}
	}
	if len(ts.LODs) > 1 {
		v.Reach("C22.ts.two_levels")
	}
	v.Reach("C22.ts.end")
}

func Harness_C22_timescale_short() { c22Timescale(c22QuerySteps[v.Choice(len(c22QuerySteps))], 4) }
