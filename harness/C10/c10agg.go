//go:build verif

package aggregator

import (
	"time"

	"github.com/VKCOM/statshouse/internal/data_model"
	v "github.com/VKCOM/statshouse/internal/zzverif"
)

// The aggregator's window of recent seconds (advanceRecentBuckets), one tick from a contiguous window
// built for short window 3 or 5, to a possibly different short window 3 or 5 (remote config change),
// with the clock anywhere from the window start to 12 s past it (also a jump that retires every
// bucket): afterwards the window is contiguous - bucket i holds second first+i, which is what
// handleSendSourceBucket's index recentBuckets[second-oldest] relies on to file a second into the
// bucket of that very second - it is at least short window + future window long, the retired
// seconds are exactly the leading ones in order, and no second of the old window is lost or doubled.
func Harness_C10_recent_window_contiguous() {
	a := &Aggregator{}
	ws0 := []int{3, 5}[v.Choice(2)]
	ws1 := []int{3, 5}[v.Choice(2)]
	start := v.NondetU32Range(1_000_000_000, 2_000_000_000)
	for i := 0; i < ws0+data_model.FutureWindow; i++ {
		a.recentBuckets = append(a.recentBuckets, newAggregatorBucket(start+uint32(i)))
	}
	old := append([]*aggregatorBucket(nil), a.recentBuckets...)
	a.configR.ShortWindow = ws1
	now := start + v.NondetU32Range(0, uint32(ws0)+12)
	ready := a.advanceRecentBuckets(time.Unix(int64(now), 0), false)
	v.Assert("C10.window.long_enough", len(a.recentBuckets) >= ws1+data_model.FutureWindow)
	for i, b := range a.recentBuckets {
		v.Assert("C10.window.bucket_i_holds_second_first_plus_i", b.time == a.recentBuckets[0].time+uint32(i))
	}
	for i, b := range ready {
		v.Assert("C10.window.retired_are_the_leading_old_buckets_in_order", i < len(old) && b == old[i])
	}
	// every old bucket is either retired or still in the window, at the index of its second
	for i, b := range old {
		if i < len(ready) {
			continue
		}
		idx := int(b.time - a.recentBuckets[0].time)
		v.Assert("C10.window.kept_bucket_stays_at_the_index_of_its_second", idx >= 0 && idx < len(a.recentBuckets) && a.recentBuckets[idx] == b)
	}
	if ws0 != ws1 {
		v.Reach("C10.window.short_window_changed")
	}
	v.Reach("C10.window.end")
}
