//go:build verif

package agent

import (
	"github.com/VKCOM/statshouse/internal/data_model"
	"github.com/VKCOM/statshouse/internal/format"
	v "github.com/VKCOM/statshouse/internal/zzverif"
)

// Replica choice for a second: primary is replica t%3 of the shard; when it is dead the spare
// is one of the other two, alternating with t%2; nil only when primary and spare are dead.
func Harness_C10_replicaForSecond() {
	const nShards = 2
	a := &Agent{}
	var alive [nShards * 3]bool
	for i := 0; i < nShards*3; i++ {
		r := &ShardReplica{ShardKey: int32(i/3 + 1), ReplicaKey: int32(i%3 + 1)}
		alive[i] = v.NondetBool()
		r.alive.Store(alive[i])
		a.ShardReplicas = append(a.ShardReplicas, r)
	}
	shard := v.Choice(nShards)
	t := v.NondetU32()
	r, spare := a.getShardReplicaForSecond(shard, t)
	r2, spare2 := a.getShardReplicaForSecond(shard, t)
	v.Assert("C10.replica.deterministic", r == r2 && spare == spare2)
	prim := int(t % 3)
	if alive[shard*3+prim] {
		v.Assert("C10.replica.primary", r == a.ShardReplicas[shard*3+prim] && !spare)
	} else {
		// the spare candidate is never the primary and is in the same shard
		other := -1
		for k := 0; k < 3; k++ {
			if r == a.ShardReplicas[shard*3+k] {
				other = k
			}
		}
		if r != nil {
			v.Assert("C10.replica.spare_flag", spare)
			v.Assert("C10.replica.spare_same_shard", other >= 0)
			v.Assert("C10.replica.spare_not_primary", other != prim)
			v.Assert("C10.replica.spare_alive", alive[shard*3+other])
			// alternates with t%2 between the two remaining replicas (the code computes
			// t+1+t%2 in uint32, so the closed form is stated below the wrap-around only)
			if t < 1<<32-2 {
				v.Assert("C10.replica.spare_alternates", other == (prim+1+int(t%2))%3)
			}
		} else {
			v.Assert("C10.replica.nil_not_spare", !spare)
			// nil only if the primary and some other replica of the shard are dead
			dead := 0
			for k := 0; k < 3; k++ {
				if !alive[shard*3+k] {
					dead++
				}
			}
			v.Assert("C10.replica.nil_only_if_two_dead", dead >= 2)
			if t < 1<<32-2 {
				v.Assert("C10.replica.nil_only_if_spare_dead", !alive[shard*3+(prim+1+int(t%2))%3])
			}
		}
	}
	// aggregator-side rule: the replica with key k owns seconds with t%3 == k-1
	if r != nil && !spare {
		v.Assert("C10.replica.owner_rule", int(t%3) == int(r.ReplicaKey)-1)
	}
	v.Reach("C10.replica.end")
}

// Agent.shard: result is always one of the agent's shards; ok=false falls back to shard 0;
// the second shard is never the first and is within range.
func Harness_C10_agentShard() {
	const nShards = 3
	a := &Agent{shardByMetricCount: v.NondetU32Range(1, 64)}
	for i := 0; i < nShards; i++ {
		a.Shards = append(a.Shards, &Shard{ShardNum: i})
	}
	meta := &format.MetricMetaValue{}
	meta.ShardFixedKey = v.NondetU32Range(0, 6)
	meta.ShardFixedKey2 = v.NondetU32Range(0, 6)
	meta.ShardNum = v.NondetU32Range(0, 6)
	switch v.Choice(3) {
	case 0:
		meta.ShardStrategy = format.ShardFixed
	case 1:
		meta.ShardStrategy = format.ShardByMetricID
	case 2:
		meta.ShardStrategy = "unknown_strategy"
	}
	key := &data_model.Key{Metric: v.NondetI32Range(-5, 1000)}
	s1, ok, s2 := a.shard(key, meta, nil)
	in := -1
	for i, s := range a.Shards {
		if s == s1 {
			in = i
		}
	}
	v.Assert("C10.agentShard.in_range", in >= 0)
	if !ok {
		v.Assert("C10.agentShard.fallback_zero", in == 0)
	}
	if meta.ShardFixedKey > 0 && meta.ShardFixedKey <= nShards {
		v.Assert("C10.agentShard.fixed_key", ok && in == int(meta.ShardFixedKey)-1)
	}
	if s2 != nil {
		v.Assert("C10.agentShard.second_differs", s2 != s1)
		v.Assert("C10.agentShard.second_is_key2", meta.ShardFixedKey2 > 0 && s2 == a.Shards[meta.ShardFixedKey2-1])
	}
	ts1, tok, ts2 := a.shard(key, meta, nil)
	v.Assert("C10.agentShard.deterministic", ts1 == s1 && tok == ok && ts2 == s2)
	v.Reach("C10.agentShard.end")
}
