//go:build verif

package sharding

import (
	"github.com/VKCOM/statshouse/internal/data_model"
	"github.com/VKCOM/statshouse/internal/format"
	v "github.com/VKCOM/statshouse/internal/zzverif"
)

// shard counts explored by the fixed-point lemma (symbolic x symbolic products are nonlinear:
// unknown at 20 s in Int mode, so the count is case-split over these values)
var c10Counts = []uint32{1, 2, 3, 4, 5, 6, 7, 8, 9, 12, 16, 18, 24, 32, 48, 64, 100, 128, 256, 1000, 65535, 1<<32 - 1}

// fixed-point 32.32 product: for every hash and every shard count >= 1 the result is a shard
// index below the count, and it is monotone in the high half of the hash.
func Harness_C10_shardByMappedTags() {
	h := v.NondetU64()
	hi := h >> 32
	n := c10Counts[v.Choice(len(c10Counts))]
	s := shardByMappedTags(h, n)
	v.Assert("C10.hash.in_range", s < n)
	// low half of the hash does not matter
	v.Assert("C10.hash.low_half_ignored", shardByMappedTags(hi<<32, n) == s)
	v.Reach("C10.hash.end")
}

func Harness_C10_shardStrategies() {
	meta := &format.MetricMetaValue{}
	meta.ShardFixedKey = v.NondetU32()
	meta.ShardNum = v.NondetU32()
	count := v.NondetU32Range(1, 1<<16)
	key := &data_model.Key{Metric: v.NondetI32()}
	which := v.Choice(4)
	switch which {
	case 0:
		meta.ShardStrategy = format.ShardFixed
	case 1:
		meta.ShardStrategy = format.ShardByMetricID
	case 2:
		meta.ShardStrategy = format.ShardBuiltinDist
	case 3:
		meta.ShardStrategy = "no_such_strategy"
	}
	s, ok := Shard(key, meta, count, nil)
	if meta.ShardFixedKey > 0 {
		v.Assert("C10.shard.fixed_key", ok && s == meta.ShardFixedKey-1)
	} else {
		switch which {
		case 0:
			v.Assert("C10.shard.fixed", ok && s == meta.ShardNum)
		case 1:
			v.Assert("C10.shard.by_metric_in_range", ok && s < count)
			v.Assert("C10.shard.by_metric_value", s == uint32(key.Metric)%count)
		default:
			v.Assert("C10.shard.unknown_not_ok", !ok)
		}
	}
	s2, ok2 := Shard(key, meta, count, nil)
	v.Assert("C10.shard.deterministic", s2 == s && ok2 == ok)
	v.Reach("C10.shard.end")
}

// The API reads a metric from the shard the agent wrote it to: for an arbitrary 32-bit metric id
// (negative built-in ids included), fixed key 0 or arbitrary 1..65536, fixed shard number arbitrary,
// strategies fixed / by metric id, shard count from the list: MetricMetaValue.Shard (API side) equals
// sharding.Shard (agent side), and for the by-metric-id strategy it is a valid index below the count.
func Harness_C10_api_shard_agrees_with_agent() {
	meta := &format.MetricMetaValue{MetricID: v.NondetI32()}
	if v.NondetBool() {
		meta.ShardFixedKey = v.NondetU32Range(1, 65536)
	}
	meta.ShardNum = v.NondetU32Range(0, 65535)
	meta.ShardStrategy = []string{format.ShardFixed, format.ShardByMetricID}[v.Choice(2)]
	n := []uint32{1, 2, 3, 5, 16, 18, 1000, 65535}[v.Choice(8)]
	key := &data_model.Key{Metric: meta.MetricID}
	agentShard, ok := Shard(key, meta, n, nil)
	v.Assert("C10.api.agent_shards_these_strategies", ok)
	apiShard := meta.Shard(int(n))
	v.Assert("C10.api.same_shard_as_the_agent", apiShard >= 0 && uint32(apiShard) == agentShard)
	if meta.ShardFixedKey == 0 && meta.ShardStrategy == format.ShardByMetricID {
		v.Assert("C10.api.by_metric_id_in_range", apiShard < int(n))
		v.Reach("C10.api.by_metric_id")
	}
	v.Reach("C10.api.end")
}
