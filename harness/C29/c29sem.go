//go:build verif

package semaphore

import (
	"context"

	v "github.com/VKCOM/statshouse/internal/zzverif"
)

type c29Sem struct {
	s      *Weighted
	held   int64
	order  []int
	done   int
	errs   int
}

func (m *c29Sem) worker(ctx context.Context, id int, n int64, release bool) {
	err := m.s.Acquire(ctx, n)
	if err != nil {
		m.errs++
		m.done++
		return
	}
	m.held += n
	m.order = append(m.order, id)
	v.Assert("C29.sem.never_admits_more_than_size", m.held <= m.s.size)
	v.Assert("C29.sem.cur_covers_holders", m.held <= m.s.cur)
	if release {
		m.held -= n
		m.s.Release(n)
	}
	m.done++
}

// size 2, held completely by main; three waiters queue up one after the other (each is parked
// before the next arrives); main releases everything: never more than the size is admitted and
// nobody is left behind. With full-size requests admissions are strictly sequential, so the order
// in which the waiters get through is observable: it is the arrival order.
func Harness_C29_sem_fifo() { c29SemFifo(true) }

// mixed weights 1..2: several waiters may be admitted by one Release, so only the bounds are asserted
func Harness_C29_sem_mixed_weights() { c29SemFifo(false) }

func c29SemFifo(fullSize bool) {
	m := &c29Sem{s: NewWeighted(2)}
	if !m.s.TryAcquire(2) {
		panic("try acquire failed on an empty semaphore")
	}
	for id := 0; id < 3; id++ {
		w := int64(2)
		if !fullSize {
			w = int64(1 + v.Choice(2))
		}
		go m.worker(context.Background(), id, w, true)
		v.Quiesce() // parked in the waiter list
	}
	v.Assert("C29.sem.fifo.all_waiting", m.done == 0 && m.s.waiters.Len() == 3)
	m.s.Release(2)
	v.Quiesce()
	v.Assert("C29.sem.fifo.everyone_finished", m.done == 3 && len(m.order) == 3)
	if fullSize {
		v.Assert("C29.sem.fifo.served_in_arrival_order", m.order[0] == 0 && m.order[1] == 1 && m.order[2] == 2)
	}
	v.Assert("C29.sem.fifo.empty_at_the_end", m.s.cur == 0 && m.s.waiters.Len() == 0)
	v.Reach("C29.sem.fifo.end")
}

// a cancelled waiter leaves the semaphore unchanged: size 2 held by main (weight 2); waiter A
// (weight 1..2, cancellable) then waiter B (weight 1); main cancels A and releases in either order.
// A either got the semaphore (err == nil) or left cur and the list as if it had never come; B gets through.
func Harness_C29_sem_cancel() {
	m := &c29Sem{s: NewWeighted(2)}
	if !m.s.TryAcquire(2) {
		panic("try acquire failed")
	}
	ctx, cancel := context.WithCancel(context.Background())
	go m.worker(ctx, 0, int64(1+v.Choice(2)), true)
	v.Quiesce()
	go m.worker(context.Background(), 1, 1, true)
	v.Quiesce()
	if v.NondetBool() {
		cancel()
		v.Quiesce()
		// cancelled while blocked behind the holder: nothing changed for anyone else
		v.Assert("C29.sem.cancel.cur_unchanged", m.s.cur == 2)
		v.Assert("C29.sem.cancel.cancelled_waiter_left_the_list", m.s.waiters.Len() == 1 && m.errs == 1)
		m.s.Release(2)
	} else {
		m.s.Release(2)
		cancel()
	}
	v.Quiesce()
	v.Assert("C29.sem.cancel.everyone_finished", m.done == 2)
	v.Assert("C29.sem.cancel.other_waiter_admitted", len(m.order) >= 1)
	v.Assert("C29.sem.cancel.empty_at_the_end", m.s.cur == 0 && m.s.waiters.Len() == 0)
	cancel()
	v.Reach("C29.sem.cancel.end")
}

// cancelling the front waiter (too big for what is free) lets the ones behind it in when tokens are free
func Harness_C29_sem_cancel_front_wakes_successors() {
	m := &c29Sem{s: NewWeighted(2)}
	if !m.s.TryAcquire(1) {
		panic("try acquire failed")
	}
	ctx, cancel := context.WithCancel(context.Background())
	go m.worker(ctx, 0, 2, false) // needs 2, only 1 free: parks at the front
	v.Quiesce()
	go m.worker(context.Background(), 1, 1, false) // would fit, but waits behind the front waiter (FIFO)
	v.Quiesce()
	v.Assert("C29.sem.front.fifo_blocks_smaller_request_behind", m.done == 0)
	cancel()
	v.Quiesce()
	v.Assert("C29.sem.front.successor_admitted_after_front_cancel", m.done == 2 && m.errs == 1 && len(m.order) == 1 && m.order[0] == 1)
	v.Assert("C29.sem.front.cur", m.s.cur == 2)
	v.Reach("C29.sem.front.end")
}

// SetSize / ForceAcquire: cur exceeds size only through ForceAcquire; growing the size admits waiters
func Harness_C29_sem_setsize() {
	m := &c29Sem{s: NewWeighted(1)}
	m.s.ForceAcquire(int64(v.Choice(3)))
	forced := m.s.cur
	go m.worker(context.Background(), 0, 1, false)
	v.Quiesce()
	if forced >= 1 {
		v.Assert("C29.sem.setsize.waits_while_over_limit", m.done == 0)
		m.s.SetSize(forced + 1)
		v.Quiesce()
	}
	v.Assert("C29.sem.setsize.admitted_once_size_allows", m.done == 1 && m.s.cur == forced+1 && m.s.cur <= m.s.size)
	v.Reach("C29.sem.setsize.end")
}
