//go:build verif

package queue

import (
	"context"

	v "github.com/VKCOM/statshouse/internal/zzverif"
)

type c29Mon struct {
	q       *Queue
	holding int
	grants  []string
	done    int
	errs    int
}

// an acquirer: Acquire, note the grant (checking the capacity in force), hold across a scheduling
// point, Release
func (m *c29Mon) worker(ctx context.Context, token string, release bool) {
	err := m.q.Acquire(ctx, token)
	if err != nil {
		m.errs++
		m.done++
		return
	}
	// bookkeeping between two scheduling points is atomic under the engine (context switches happen
	// at synchronisation operations only), so the monitor needs no lock of its own
	m.holding++
	m.grants = append(m.grants, token)
	v.Assert("C29.queue.active_matches_holders_plus_granted", int64(m.holding) <= m.q.activeQuery)
	v.Assert("C29.queue.never_more_active_than_capacity", m.q.activeQuery <= m.q.maxActiveQuery)
	if release {
		m.holding--
		m.q.Release()
	}
	m.done++
}

func (m *c29Mon) checkIdle(tag string) {
	q := m.q
	v.Assert("C29.queue."+tag+".no_leaked_capacity", q.activeQuery == int64(m.holding))
	v.Assert("C29.queue."+tag+".no_waiter_left_in_index", len(q.waitingUsersByName) == 0)
	v.Assert("C29.queue."+tag+".no_waiter_left_in_tree", q.waitingUsersByPriority.Len() == 0)
}

// 3 acquirers (tokens chosen among two users), capacity 1..2, everyone releases: under every
// schedule nobody is left waiting (no lost wake-up), capacity is never exceeded and nothing leaks.
func Harness_C29_queue_acquire_release() {
	capacity := int64(1 + v.Choice(2))
	m := &c29Mon{q: NewQueue(capacity)}
	toks := []string{"u1", "u2"}
	n := 3
	go m.worker(context.Background(), toks[0], true)
	go m.worker(context.Background(), toks[1], true)
	go m.worker(context.Background(), toks[v.Choice(2)], true)
	v.Quiesce()
	v.Assert("C29.queue.no_lost_wakeup_everyone_finished", m.done == n)
	v.Assert("C29.queue.all_granted", len(m.grants) == n)
	m.checkIdle("after_all")
	v.Reach("C29.queue.ar.end")
}

// cancellation: capacity 1 is held by main; two waiters, one of them with a context that main
// cancels at an arbitrary moment; then main releases. The cancelled waiter either owns the slot
// (returned nil, and then releases it) or left no trace; the other waiter always gets through.
func Harness_C29_queue_cancel() {
	m := &c29Mon{q: NewQueue(1)}
	if err := m.q.Acquire(context.Background(), "main"); err != nil {
		panic("fast path failed")
	}
	ctx, cancel := context.WithCancel(context.Background())
	go m.worker(ctx, []string{"u1", "u2"}[v.Choice(2)], true)
	go m.worker(context.Background(), "u2", true)
	if v.NondetBool() {
		cancel()
		m.q.Release()
	} else {
		m.q.Release()
		cancel()
	}
	v.Quiesce()
	v.Assert("C29.queue.cancel.everyone_finished", m.done == 2)
	v.Assert("C29.queue.cancel.other_waiter_granted", len(m.grants)+m.errs == 2 && len(m.grants) >= 1)
	m.checkIdle("cancel")
	cancel()
	v.Reach("C29.queue.cancel.end")
}

// round robin: capacity 1 held by main; user u1 queues two queries and user u2 one; once all three
// wait, the slot is passed on. u1 is never granted twice while u2, already waiting, still waits.
func Harness_C29_queue_round_robin() {
	m := &c29Mon{q: NewQueue(1)}
	if err := m.q.Acquire(context.Background(), "main"); err != nil {
		panic("fast path failed")
	}
	go m.worker(context.Background(), "u1", true)
	go m.worker(context.Background(), "u1", true)
	go m.worker(context.Background(), "u2", true)
	v.Quiesce() // all three are waiting now
	v.Assert("C29.queue.rr.all_waiting", m.done == 0 && len(m.q.waitingUsersByName) == 2)
	m.q.Release()
	v.Quiesce()
	v.Assert("C29.queue.rr.everyone_finished", m.done == 3 && len(m.grants) == 3)
	v.Assert("C29.queue.rr.no_double_grant_while_other_user_waits", !(m.grants[0] == "u1" && m.grants[1] == "u1"))
	m.checkIdle("rr")
	v.Reach("C29.queue.rr.end")
}

// capacity changes: capacity 2 fully used, one waiter; capacity is lowered to 0 or 1 (or raised to 3)
// and one holder releases: a waiter is granted only while active < capacity.
func Harness_C29_queue_adjust_capacity() {
	m := &c29Mon{q: NewQueue(2)}
	for k := 0; k < 2; k++ {
		if err := m.q.Acquire(context.Background(), "main"); err != nil {
			panic("fast path failed")
		}
	}
	go m.worker(context.Background(), "u1", false)
	v.Quiesce()
	newCap := uint64(v.Choice(4))
	m.q.AdjustCapacity(newCap)
	m.q.Release()
	v.Quiesce()
	// after the release one main holder is left; the waiter may have been granted
	active := int64(1 + len(m.grants))
	v.Assert("C29.queue.adjust.active_accounting", m.q.activeQuery == active)
	if len(m.grants) == 1 {
		v.Assert("C29.queue.adjust.grant_only_below_capacity", int64(newCap) >= active)
	} else {
		v.Assert("C29.queue.adjust.waiter_granted_when_capacity_frees", int64(newCap) <= 1)
	}
	v.Reach("C29.queue.adjust.end")
}
