//go:build verif

package data_model

import (
	v "github.com/VKCOM/statshouse/internal/zzverif"
	"pgregory.net/rand"
)

type c07Totals struct {
	count, sum, sumsq float64
	min, max          float64
	set               bool
}

func (t *c07Totals) add(val, cnt float64) {
	t.count += cnt
	t.sum += val * cnt
	t.sumsq += val * val * cnt
	if !t.set {
		t.min, t.max, t.set = val, val, true
		return
	}
	// non-forking min/max
	lt := val < t.min
	gt := val > t.max
	t.min = c07Sel(lt, val, t.min)
	t.max = c07Sel(gt, val, t.max)
}

func c07Sel(c bool, a, b float64) float64 {
	if c {
		return a
	}
	return b
}

// totals over Top u Tail of the row
func c07RowTotals(s *MultiItem) (count, sum, sumsq float64, mins, maxs []float64) {
	add := func(mv *MultiValue) {
		count += mv.Value.counter
		sum += mv.Value.ValueSum
		sumsq += mv.Value.ValueSumSquare
		if mv.Value.ValueSet {
			mins = append(mins, mv.Value.ValueMin)
			maxs = append(maxs, mv.Value.ValueMax)
		}
	}
	add(&s.Tail)
	for _, mv := range s.Top {
		add(mv)
	}
	return
}

// symbolic values: sums are products of two solver variables (non-linear), so that mode checks
// count, min and max only; the concrete-value mode checks the sums
var c07SymbolicValues bool

// key set with a tag that carries both a mapped id and a raw string (RemoveStringTopTag yields one
// when Tags[47] and STags[47] are both filled)
var c07BothForms bool

// counts in half steps (sample-factor scaled counters): weights less than 1 apart must still be ordered
var c07HalfCounts bool

func c07Check(tag string, s *MultiItem, want *c07Totals) {
	count, sum, sumsq, mins, maxs := c07RowTotals(s)
	v.Assert("C07."+tag+".count_conserved", count == want.count)
	if !c07SymbolicValues {
		v.Assert("C07."+tag+".sum_conserved", sum == want.sum)
		v.Assert("C07."+tag+".sumsq_conserved", sumsq == want.sumsq)
	}
	if want.set {
		v.Assert("C07."+tag+".some_value_kept", len(mins) > 0)
		lower, attained, upper, attainedMax := true, false, true, false
		for k := range mins {
			lower = v.And(lower, want.min <= mins[k])
			attained = v.Or(attained, want.min == mins[k])
			upper = v.And(upper, want.max >= maxs[k])
			attainedMax = v.Or(attainedMax, want.max == maxs[k])
		}
		v.Assert("C07."+tag+".min_conserved", v.And(lower, attained))
		v.Assert("C07."+tag+".max_conserved", v.And(upper, attainedMax))
	}
}

// n events written into one string-top row: each event has a top key chosen among 3 keys (two ints and a
// 1-byte string; in the both-forms harness: an int, the same int also carrying a raw string, a string) or none (tail), a value from {-3,5} (kept concrete so that sums stay linear terms) and an arbitrary count 1..16; capacity 1..2.
// After every event and after FinishStringTop: count, sum, sum of squares, min, max over
// Top u Tail equal those of all events written, for every outcome of the random draws and
// every map iteration order. After finishing: at most `keep` top values remain, every retained
// value is at least as heavy as every value folded by that call, the returned weight is the
// total count.
func c07Run(n int, withValues bool) {
	rng := rand.New()
	var s MultiItem
	capacity := 1 + v.Choice(2)
	keys := []TagUnion{{I: 7}, {S: "x"}, {I: 9}}
	if c07BothForms {
		// the second key carries both forms: the mapped id wins (same top value as {I: 7})
		keys = []TagUnion{{I: 7}, {I: 7, S: "y"}, {S: "x"}}
	}
	var want c07Totals
	lastLog2 := 0
	for e := 0; e < n; e++ {
		var tag TagUnion
		if k := v.Choice(len(keys) + 1); k < len(keys) {
			tag = keys[k]
		}
		cnt := v.NondetFloatInt(1, 16)
		if c07HalfCounts {
			cnt = v.NondetFloatInt(2, 16) / 2 // weights 1, 1.5, ... 8: sampled counters are not whole numbers
		}
		mv := s.MapStringTop(rng, capacity, tag, cnt)
		if withValues {
			// concrete value list keeps value*count and value*value*count linear in the symbolic count
			val := 0.0
			if c07SymbolicValues {
				val = v.NondetFloatInt(-100, 100)
			} else {
				val = []float64{-3, 5}[v.Choice(2)]
			}
			mv.AddValueCounterHost(rng, val, cnt, TagUnion{I: 1})
			want.add(val, cnt)
		} else {
			mv.AddCounterHost(rng, cnt, TagUnion{I: 1})
			want.count += cnt
		}
		v.Assert("C07.capacity_respected_while_writing", len(s.Top) <= capacity)
		v.Assert("C07.sample_factor_only_grows", s.sampleFactorLog2 >= lastLog2)
		lastLog2 = s.sampleFactorLog2
		c07Check("event", &s, &want)
	}
	keep := v.Choice(3) // 0, 1, 2
	// weights before finishing
	type kw struct {
		k TagUnion
		w float64
	}
	var before []kw
	for k, mv := range s.Top {
		before = append(before, kw{k, mv.Value.counter})
	}
	whale := s.FinishStringTop(rng, keep)
	v.Assert("C07.finish.whale_weight_is_total_count", whale == want.count)
	v.Assert("C07.finish.at_most_capacity", len(s.Top) <= keep)
	c07Check("finish", &s, &want)
	for _, a := range before {
		_, kept := s.Top[a.k]
		if !kept {
			continue
		}
		for _, b := range before {
			if _, keptB := s.Top[b.k]; !keptB {
				v.Assert("C07.finish.retained_at_least_as_heavy_as_folded", a.w >= b.w)
			}
		}
	}
	if len(before) > keep {
		v.Assert("C07.finish.keeps_exactly_capacity_when_more", len(s.Top) == keep)
	} else {
		v.Assert("C07.finish.keeps_all_when_fewer", len(s.Top) == len(before))
	}
	v.Reach("C07.end")
}

func Harness_C07_minmax_3events() {
	c07SymbolicValues = true
	c07Run(3, true)
}
func Harness_C07_values_2events()   { c07Run(2, true) }
func Harness_C07_values_3events_both_forms() {
	c07BothForms = true
	c07Run(3, true)
}
func Harness_C07_values_3events()   { c07Run(3, true) }
func Harness_C07_counters_3events() { c07Run(3, false) }
func Harness_C07_counters_3events_half_counts() {
	c07HalfCounts = true
	c07Run(3, false)
}
func Harness_C07_values_4events()   { c07Run(4, true) }
