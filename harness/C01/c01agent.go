//go:build verif

package agent

import (
	"context"
	"errors"
	"sync"
	"time"

	"github.com/VKCOM/statshouse/internal/vkgo/semaphore"

	"github.com/VKCOM/statshouse/internal/data_model"
	"github.com/VKCOM/statshouse/internal/data_model/gen2/tlstatshouse"
	"github.com/VKCOM/tl/pkg/rpc"
	v "github.com/VKCOM/statshouse/internal/zzverif"
)

// Agent side of C01: the real send conveyor (goSendRecent, sendRecent, sendHistoric, goSendHistoric's
// pop, goEraseHistoric's decision, diskCachePutWithLog, appendHistoricBucketsToSend,
// popOldestHistoricSecondLocked, checkOutOfWindow, sendSourceBucket3Compressed, getShardReplicaForSecond)
// runs against three models written below: the RPC client (arbitrary outcome per attempt), the disk
// cache (a ghost set of saved seconds; put may fail) and the clock (arbitrary non-decreasing).

type c01Saved struct {
	id     int64
	time   uint32
	data   []byte
	erased bool
	// ghost: why it may be forgotten
	acked bool
}

type c01Ghost struct {
	now      uint32
	maxStep  uint32
	disk     []c01Saved // model disk cache: every second ever put
	putFails bool
	getFails bool
	total    int64 // model TotalFileSize
	tail     []int64 // ids on the model disk not yet handed to the queue
	tailPos  int
	eraser   *Shard // set by the eraser harness: the round is observed at its 60 s sleep

	// the second under observation
	time    uint32
	payload []byte
	acked   bool // some response for it carried discard
	sends   int
	maxSend int
	cancel  bool // allow the model to cancel
	window  uint32

	canceled        bool
	eraseUnacked    bool // an erase of a second that was neither acknowledged nor out of window nor over the disk limit
	eraseOverLimit  bool
	eraseOutOfWin   bool
	historicFlagSet int
}

var c01g c01Ghost

var errC01Transport = errors.New("c01: transport failure or lost response")

// model clock: arbitrary non-decreasing
func C01Now() time.Time {
	if c01g.maxStep != 0 {
		c01g.now += v.NondetU32Range(0, c01g.maxStep)
	}
	return time.Unix(int64(c01g.now), 0)
}

func C01After(d time.Duration) <-chan time.Time {
	if g := &c01g; g.eraser != nil {
		// the eraser put the second back and goes to sleep: end of the observed round
		s := g.eraser
		mem, disk := c01Held(s)
		outOfWindow := g.now >= g.window && g.time < g.now-g.window
		v.Assert("C01.agent.eraser_puts_back_only_a_second_inside_window_and_limit", !outOfWindow && !g.eraseOverLimit)
		v.Assert("C01.agent.eraser_keeps_a_second_inside_window_and_limit", mem && disk)
		v.Assert("C01.agent.eraser_no_uncounted_erase", !g.eraseUnacked && !s.agent.statDiskOverflow.value.ValueSet && !s.agent.statLongWindowOverflow.value.ValueSet)
		v.Reach("C01.agent.eraser_kept")
		v.Assume(false)
	}
	ch := make(chan time.Time, 1)
	ch <- time.Time{}
	return ch
}

func C01WithDeadline(parent context.Context, d time.Time) (context.Context, context.CancelFunc) {
	return parent, func() {}
}

// model of one SendSourceBucket3 round trip: what the aggregator did is not modelled here (that is the
// other half of C01); the agent only sees an error, a response without discard, or one with discard
func C01RPC(c *tlstatshouse.Client, ctx context.Context, args tlstatshouse.SendSourceBucket3, extra *rpc.InvokeReqExtra, ret *tlstatshouse.SendSourceBucket3Response) error {
	g := &c01g
	g.sends++
	v.Assume(g.sends <= g.maxSend) // bound on attempts
	if args.Time == g.time {
		v.Assert("C01.agent.request_carries_the_seconds_payload", len(g.payload) >= 4 && args.CompressedData == string(g.payload[4:]) &&
			args.OriginalSize == uint32(g.payload[0])|uint32(g.payload[1])<<8|uint32(g.payload[2])<<16|uint32(g.payload[3])<<24)
	}
	if args.IsSetHistoric() {
		g.historicFlagSet++
	}
	n := 3
	if g.cancel {
		n = 4
	}
	switch v.Choice(n) {
	case 0:
		return errC01Transport
	case 1:
		return nil // keep
	case 2:
		ret.SetDiscard(true)
		if args.Time == g.time {
			g.acked = true
		}
		for i := range g.disk {
			if g.disk[i].time == args.Time {
				g.disk[i].acked = true
			}
		}
		return nil
	}
	g.canceled = true
	return context.Canceled
}

func C01Put(d *DiskBucketStorage, shardID int, tm uint32, data []byte) (int64, error) {
	g := &c01g
	if g.putFails {
		return 0, errC01Transport
	}
	id := int64(len(g.disk) + 1)
	g.disk = append(g.disk, c01Saved{id: id, time: tm, data: append([]byte(nil), data...)})
	return id, nil
}

func C01Erase(d *DiskBucketStorage, shardID int, id int64) error {
	g := &c01g
	if id <= 0 || int(id) > len(g.disk) {
		return nil // the real cache ignores unknown ids, id 0 = never saved
	}
	e := &g.disk[id-1]
	e.erased = true
	outOfWindow := g.now >= g.window && e.time < g.now-g.window
	v.Assert("C01.agent.erase_only_after_discard_expiry_or_disk_limit", e.acked || outOfWindow || g.eraseOverLimit)
	if !e.acked && !outOfWindow && !g.eraseOverLimit {
		g.eraseUnacked = true
	}
	if !e.acked && outOfWindow {
		g.eraseOutOfWin = true
	}
	return nil
}

func C01Get(d *DiskBucketStorage, shardID int, id int64, tm uint32, scratch *[]byte) ([]byte, error) {
	g := &c01g
	if g.getFails || id <= 0 || int(id) > len(g.disk) || g.disk[id-1].erased {
		return nil, errC01Transport
	}
	return g.disk[id-1].data, nil
}

// seconds saved by an earlier run that the queue has not read yet (the real cache hands them out one by one)
func C01Tail(d *DiskBucketStorage, shardID int) (uint32, int64) {
	g := &c01g
	if g.tailPos >= len(g.tail) {
		return 0, 0
	}
	id := g.tail[g.tailPos]
	g.tailPos++
	return g.disk[id-1].time, id
}

func C01Total(d *DiskBucketStorage, shardID int) (int64, int64) { return c01g.total, c01g.total }

func C01Stat(s *BuiltInItemValue, value float64, count float64) { s.value.ValueSet = true }

func C01AddValues(c interface{}, tm uint32, m []tlstatshouse.Mapping) {}

func c01Agent(withDisk bool, window uint32) (*Agent, *Shard) {
	a := &Agent{}
	a.logF = func(string, ...interface{}) {}
	if withDisk {
		a.diskBucketCache = &DiskBucketStorage{}
	}
	a.statErrorsDiskWrite = &BuiltInItemValue{}
	a.statErrorsDiskRead = &BuiltInItemValue{}
	a.statErrorsDiskErase = &BuiltInItemValue{}
	a.statErrorsDiskReadNotConfigured = &BuiltInItemValue{}
	a.statLongWindowOverflow = &BuiltInItemValue{}
	a.statDiskOverflow = &BuiltInItemValue{}
	a.statMemoryOverflow = &BuiltInItemValue{}
	a.TimingsSendRecent = &BuiltInItemValue{}
	a.TimingsSendHistoric = &BuiltInItemValue{}
	s := &Shard{agent: a, ShardNum: 0, ShardKey: 1}
	s.cond = sync.NewCond(&s.mu)
	s.config.HistoricWindow = uint(window)
	s.config.MaxHistoricDiskSize = 1 << 30
	a.Shards = []*Shard{s}
	for i := 0; i < 3; i++ {
		r := &ShardReplica{agent: a, ShardReplicaNum: i, ShardKey: 1, ReplicaKey: int32(i + 1), stats: &shardStat{}}
		r.config.LivenessResponsesWindowLength = 5
		r.config.LivenessResponsesWindowSuccesses = 3
		r.clientField = tlstatshouse.Client{Address: "aggregator"}
		a.ShardReplicas = append(a.ShardReplicas, r)
	}
	return a, s
}

func c01Payload() []byte {
	n := v.Choice(3) // 0..2 bytes after the 4-byte size prefix
	p := make([]byte, 4+n)
	for i := range p {
		p[i] = v.NondetU8()
	}
	return p
}

// is the observed second still held by the agent (memory queue with data, or the model disk)?
func c01Held(s *Shard) (mem bool, disk bool) {
	g := &c01g
	for _, e := range s.historicBucketsToSend {
		if e.time == g.time && (len(e.data) != 0 || e.id != 0) {
			mem = true
			if len(e.data) != 0 {
				v.Assert("C01.agent.queued_payload_is_the_seconds_payload", string(e.data) == string(g.payload))
			}
		}
	}
	for _, e := range g.disk {
		if e.time == g.time && !e.erased {
			disk = true
			v.Assert("C01.agent.saved_payload_is_the_seconds_payload", string(e.data) == string(g.payload))
		}
	}
	return
}

// One second handed to a recent sender (goSendRecent over a channel holding it): arbitrary age of the
// second, disk cache configured or not, save-immediately on or off, disk limit zero or not, disk put
// failing or not, replicas alive or dead, arbitrary clock advance at every reading, the send attempt
// ending in an error (lost response included), keep, or discard. Afterwards the second is still held
// (historic queue with payload, or queue entry pointing at a live disk copy) unless a discard response
// was received for it; the one accounted exception is the memory-limit overflow with no disk copy.
func Harness_C01_agent_recent() {
	g := &c01g
	*g = c01Ghost{}
	withDisk := v.NondetBool()
	window := v.NondetU32Range(1, data_model.MaxHistoricWindow)
	a, s := c01Agent(withDisk, window)
	g.window = window
	g.now = v.NondetU32Range(1_000_000_000, 2_000_000_000)
	g.maxStep = 400_000
	g.time = g.now - v.NondetU32Range(0, 400_000) + 4
	g.payload = c01Payload()
	g.putFails = v.NondetBool()
	g.maxSend = 1
	s.config.SaveSecondsImmediately = v.NondetBool()
	if v.NondetBool() {
		s.config.MaxHistoricDiskSize = 0
	}
	for _, r := range a.ShardReplicas {
		r.alive.Store(v.NondetBool())
	}
	// memory already used by other historic seconds (ghost pre-state, no entries needed for this step)
	limit := data_model.MaxHistoricBucketsMemorySize / a.NumShards()
	used := []int{0, limit - 5, limit - 4, limit}[v.Choice(4)]
	s.historicBucketsDataSize = used

	ch := make(chan compressedBucketData, 1)
	ch <- compressedBucketData{time: g.time, data: g.payload}
	close(ch)
	sema := semaphore.NewWeighted(1)
	_ = sema.TryAcquire(1)
	var wg sync.WaitGroup
	wg.Add(1)
	s.goSendRecent(0, &wg, sema, context.Background(), ch)

	mem, disk := c01Held(s)
	v.Assert("C01.agent.no_erase_without_discard", !g.eraseUnacked && !g.eraseOutOfWin)
	overflow := a.statMemoryOverflow.value.ValueSet
	if !g.acked {
		v.Assert("C01.agent.recent_second_kept_until_discard", mem || overflow)
		if overflow {
			// accounted loss: only when the memory limit is hit and the second could not be saved
			v.Assert("C01.agent.memory_overflow_loss_only_without_disk_copy", !disk && used+len(g.payload) > limit)
		}
		if disk {
			v.Assert("C01.agent.disk_copy_reachable_from_queue", mem)
		}
	} else {
		v.Assert("C01.agent.acknowledged_second_released", !mem && !disk)
		v.Reach("C01.agent.recent_acked")
	}
	if overflow {
		v.Reach("C01.agent.recent_overflow")
	}
	if !g.acked && disk {
		v.Reach("C01.agent.recent_kept_on_disk")
	}
	if g.sends == 0 {
		v.Reach("C01.agent.recent_too_late_or_no_replica")
	}
}

type c01Ctx struct{ done chan struct{} }

func (c *c01Ctx) Deadline() (time.Time, bool)       { return time.Time{}, false }
func (c *c01Ctx) Done() <-chan struct{}             { return c.done }
func (c *c01Ctx) Err() error                        { return nil }
func (c *c01Ctx) Value(key interface{}) interface{} { return nil }

// One iteration of a historic sender (popOldestHistoricSecondLocked + sendHistoric) from a queue of
// 1..3 seconds of arbitrary ages, each held in memory or only on disk: up to 3 send attempts with
// arbitrary outcomes (error, keep, discard, shutdown) and arbitrary clock advances between them, disk
// reads failing or not. The oldest second is chosen; it is erased from disk only after a discard
// response for it or once it is out of the historic window (counted); the other seconds stay queued
// with their payloads; an attempt sequence with no discard, no shutdown and no window expiry does not
// return.
func Harness_C01_agent_historic()      { c01Historic(2, 2) }
func Harness_C01_agent_historic_deep() { c01Historic(3, 3) }

func c01Historic(maxN int, maxSend int) {
	g := &c01g
	*g = c01Ghost{}
	window := v.NondetU32Range(1, data_model.MaxHistoricWindow)
	withDisk := v.NondetBool()
	a, s := c01Agent(withDisk, window)
	g.window = window
	g.now = v.NondetU32Range(1_000_000_000, 2_000_000_000)
	g.maxStep = 200_000
	g.maxSend = maxSend
	g.cancel = true
	g.getFails = v.NondetBool()
	for _, r := range a.ShardReplicas {
		r.alive.Store(true)
	}
	n := 1 + v.Choice(maxN)
	times := make([]uint32, n)
	onDisk := make([]bool, n)
	oldest := 0
	for i := 0; i < n; i++ {
		times[i] = g.now - v.NondetU32Range(1, 200_000)
		for j := 0; j < i; j++ {
			v.Assume(times[j] != times[i])
		}
		if times[i] < times[oldest] {
			oldest = i
		}
		p := []byte{1, 0, 0, 0, byte(i)}
		if i == 0 {
			p = c01Payload()
		}
		cbd := compressedBucketData{time: times[i], data: p}
		if withDisk && v.NondetBool() {
			id, _ := C01Put(nil, 0, times[i], p)
			cbd.id = id
			onDisk[i] = true
			if v.NondetBool() {
				cbd.data = nil // held on disk only
			}
		}
		if len(cbd.data) != 0 {
			s.historicBucketsDataSize += len(cbd.data)
		}
		s.historicBucketsToSend = append(s.historicBucketsToSend, cbd)
	}
	// one more second may wait on disk, not yet read into the queue (agent restarted with a long disk queue)
	var tailID int64
	if withDisk && v.NondetBool() {
		tt := g.now - v.NondetU32Range(1, 200_000)
		for j := 0; j < n; j++ {
			v.Assume(times[j] != tt)
		}
		tailID, _ = C01Put(nil, 0, tt, []byte{1, 0, 0, 0, 9})
		g.tail = append(g.tail, tailID)
	}
	// observe the oldest second: it is the one that must be popped
	g.time = times[oldest]
	for _, e := range s.historicBucketsToSend {
		if e.time == g.time {
			if e.id != 0 {
				g.payload = g.disk[e.id-1].data
			} else {
				g.payload = e.data
			}
		}
	}
	memBefore := s.historicBucketsDataSize

	s.mu.Lock()
	nowUnix := uint32(C01Now().Unix())
	cbd, ok := s.popOldestHistoricSecondLocked(nowUnix)
	s.mu.Unlock()
	v.Assert("C01.agent.past_second_is_poppable", ok)
	v.Assert("C01.agent.oldest_second_first", cbd.time == g.time)
	v.Assert("C01.agent.memory_accounting_on_pop", s.historicBucketsDataSize == memBefore-len(cbd.data))
	wantLen := n - 1
	if tailID != 0 {
		wantLen++
		v.Reach("C01.agent.historic_refill_from_disk")
	}
	v.Assert("C01.agent.other_seconds_stay_queued_and_disk_tail_is_read_in", len(s.historicBucketsToSend) == wantLen)
	tailQueued := false
	for _, e := range s.historicBucketsToSend {
		v.Assert("C01.agent.other_seconds_keep_payload_or_disk_id", e.time != g.time && (len(e.data) != 0 || e.id != 0))
		if e.id == tailID {
			tailQueued = true
		}
	}
	v.Assert("C01.agent.second_read_from_disk_is_queued", tailID == 0 || tailQueued)
	var scratch []byte
	s.sendHistoric(&c01Ctx{done: make(chan struct{})}, cbd, &scratch)

	// sendHistoric returned
	_, disk := c01Held(s)
	v.Assert("C01.agent.no_erase_without_discard_or_window_expiry", !g.eraseUnacked)
	outOfWindow := g.now >= window && g.time < g.now-window
	readFailed := len(cbd.data) == 0 && (g.getFails || !withDisk)
	v.Assert("C01.agent.historic_returns_only_on_discard_expiry_shutdown_or_read_error", g.acked || g.canceled || outOfWindow || readFailed)
	if g.acked {
		v.Assert("C01.agent.acknowledged_second_erased", !disk)
		v.Reach("C01.agent.historic_acked")
	} else if g.eraseOutOfWin {
		v.Assert("C01.agent.expiry_is_counted", a.statLongWindowOverflow.value.ValueSet && s.HistoricOutOfWindowDropped.Load() == 1)
		v.Reach("C01.agent.historic_expired")
	} else if onDisk[oldest] {
		v.Assert("C01.agent.unacknowledged_second_stays_on_disk", disk)
		v.Reach("C01.agent.historic_left_on_disk")
	}
	if g.sends == maxSend {
		v.Reach("C01.agent.historic_max_attempts")
	}
	v.Assert("C01.agent.historic_flag_on_every_attempt", g.historicFlagSet == g.sends)
}

// The decision of goEraseHistoric, one round: a queued second is dropped by the eraser only when it is
// out of the historic window or the disk usage exceeds the limit (asserted at the model erase; the
// eraser then blocks on the empty queue, which ends the path) and is otherwise put back with its
// payload (observed where the eraser starts its 60 s sleep, in C01After).
func Harness_C01_agent_eraser() {
	g := &c01g
	*g = c01Ghost{}
	window := v.NondetU32Range(1, data_model.MaxHistoricWindow)
	_, s := c01Agent(true, window)
	g.window = window
	g.now = v.NondetU32Range(1_000_000_000, 2_000_000_000)
	g.maxStep = 0
	g.time = g.now - v.NondetU32Range(1, 400_000)
	g.payload = c01Payload()
	id, _ := C01Put(nil, 0, g.time, g.payload)
	cbd := compressedBucketData{id: id, time: g.time, data: g.payload}
	if v.NondetBool() {
		cbd.data = nil
	} else {
		s.historicBucketsDataSize = len(cbd.data)
	}
	s.historicBucketsToSend = append(s.historicBucketsToSend, cbd)
	s.config.MaxHistoricDiskSize = int64(v.NondetU32Range(0, 1000))
	g.total = int64(v.NondetU32Range(0, 1000))
	g.eraseOverLimit = g.total > s.config.MaxHistoricDiskSize
	g.eraser = s
	var wg sync.WaitGroup
	wg.Add(1)
	s.goEraseHistoric(&wg, &c01Ctx{done: make(chan struct{})})
	v.Assert("C01.agent.eraser_never_returns_without_cancel", false)
}

// same round, the dropping branches: observed at the model erase (the eraser then blocks on the empty queue)
func Harness_C01_agent_eraser_drop() {
	g := &c01g
	*g = c01Ghost{}
	window := v.NondetU32Range(1, data_model.MaxHistoricWindow)
	a, s := c01Agent(true, window)
	g.window = window
	g.now = v.NondetU32Range(1_000_000_000, 2_000_000_000)
	g.time = g.now - v.NondetU32Range(1, 400_000)
	g.payload = c01Payload()
	id, _ := C01Put(nil, 0, g.time, g.payload)
	s.historicBucketsToSend = append(s.historicBucketsToSend, compressedBucketData{id: id, time: g.time})
	s.config.MaxHistoricDiskSize = int64(v.NondetU32Range(0, 1000))
	g.total = int64(v.NondetU32Range(0, 1000))
	overLimit := g.total > s.config.MaxHistoricDiskSize
	outOfWindow := g.now >= window && g.time < g.now-window
	v.Assume(overLimit || outOfWindow)
	g.eraseOverLimit = overLimit
	s.mu.Lock()
	c, ok := s.popOldestHistoricSecondLocked(g.now)
	s.mu.Unlock()
	v.Assert("C01.agent.eraser_pop", ok && c.id == id)
	dropped := s.checkOutOfWindow(g.now, c, window)
	v.Assert("C01.agent.out_of_window_decision", dropped == outOfWindow)
	if dropped {
		v.Assert("C01.agent.expiry_counted_and_erased", g.disk[0].erased && a.statLongWindowOverflow.value.ValueSet && s.HistoricOutOfWindowDropped.Load() == 1)
		v.Reach("C01.agent.eraser_expired")
	}
}
