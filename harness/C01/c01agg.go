//go:build verif

package aggregator

import (
	"context"
	"errors"
	"net"
	"time"

	"github.com/VKCOM/tl/pkg/rpc"
	"pgregory.net/rand"

	"github.com/VKCOM/statshouse/internal/agent"
	"github.com/VKCOM/statshouse/internal/data_model"
	"github.com/VKCOM/statshouse/internal/data_model/gen2/tlstatshouse"
	"github.com/VKCOM/statshouse/internal/format"
	"github.com/VKCOM/statshouse/internal/vkgo/semaphore"
	v "github.com/VKCOM/statshouse/internal/zzverif"
)

// Aggregator side of C01. The RPC side is a fake rpc.HandlerContextConnection (the interface the rpc
// package offers for server mock-ups): every long-polled request and every response sent is recorded.
// ClickHouse is a model (insert succeeds or fails), row marshalling is a model that records which
// seconds went into the insert body.

type c01Sent struct {
	query   int64
	err     error
	discard bool
	warning string
}

type c01Conn struct {
	waiting  map[int64]*rpc.HandlerContext
	sent     []c01Sent
	finished map[int64]bool
}

func (c *c01Conn) StartLongpoll(hctx *rpc.HandlerContext, canceller rpc.LongpollCanceller) (rpc.LongpollHandle, error) {
	q := c01ag.nextQuery
	c01ag.nextQuery++
	c.waiting[q] = hctx
	return rpc.LongpollHandle{QueryID: q, CommonConn: c}, nil
}
func (c *c01Conn) CancelLongpoll(queryID int64) (rpc.LongpollCanceller, int64) { return nil, 0 }
func (c *c01Conn) FinishLongpoll(lh rpc.LongpollHandle) (*rpc.HandlerContext, error) {
	h := c.waiting[lh.QueryID]
	if h == nil {
		return nil, errors.New("no such longpoll")
	}
	delete(c.waiting, lh.QueryID)
	c.finished[lh.QueryID] = true
	c01ag.current = lh.QueryID
	return h, nil
}
func (c *c01Conn) DebugName() string { return "c01" }
func (c *c01Conn) SendResponse(hctx *rpc.HandlerContext, err error) {
	s := c01Sent{query: c01ag.current, err: err}
	if err == nil {
		var r tlstatshouse.SendSourceBucket3Response
		var dummy tlstatshouse.SendSourceBucket3
		_, e := dummy.ReadResultTL1(hctx.Response, &r)
		v.Assert("C01.agg.response_decodes", e == nil)
		s.discard = r.IsSetDiscard()
		s.warning = r.Warning
	}
	c.sent = append(c.sent, s)
}
func (c *c01Conn) SendEmptyResponse(lh rpc.LongpollHandle)                              {}
func (c *c01Conn) AccountResponseMem(hctx *rpc.HandlerContext, respBodySizeEstimate int) error { return nil }
func (c *c01Conn) ListenAddr() net.Addr                                                 { return nil }
func (c *c01Conn) LocalAddr() net.Addr                                                  { return nil }
func (c *c01Conn) RemoteAddr() net.Addr                                                 { return nil }
func (c *c01Conn) KeyID() [4]byte                                                       { return [4]byte{} }
func (c *c01Conn) ProtocolVersion() uint32                                              { return 0 }
func (c *c01Conn) ProtocolTransportID() byte                                            { return 0 }
func (c *c01Conn) ConnectionID() uintptr                                                { return 0 }

type c01AggGhost struct {
	now       uint32
	window    uint32
	nextQuery int64
	current   int64
	// insert model
	inserts      int
	insertTimes  []*aggregatorBucket // buckets whose rows went into the last insert body
	insertFails  bool
	insertCalled bool
	ticks        int
	tick         func()
}

var c01ag c01AggGhost

func C01AggNow() time.Time { return time.Unix(int64(c01ag.now), 0) }

func C01AggWindow(s *agent.Agent) uint32 { return c01ag.window }

func C01AggWithTimeout(parent context.Context, d time.Duration) (context.Context, context.CancelFunc) {
	return parent, func() {}
}

func C01AggMarshal(a *Aggregator, buckets []*aggregatorBucket, buffers data_model.SamplerBuffers, rnd *rand.Rand, res []byte) ([]byte, data_model.SamplerBuffers, insertStats, time.Duration) {
	g := &c01ag
	g.insertTimes = g.insertTimes[:0]
	for _, b := range buckets {
		g.insertTimes = append(g.insertTimes, b)
	}
	return append(res, 1), buffers, insertStats{sizes: map[uint32]insertSize{}}, 0
}

func C01AggInsert(ctx context.Context, httpClient interface{}, khAddr, khUser, khPassword string, table string, body []byte, settings string) (int, int, time.Duration, error) {
	g := &c01ag
	g.inserts++
	g.insertCalled = true
	if g.insertFails {
		return 500, 1, 0, errors.New("c01: insert failed")
	}
	return 200, 0, 0, nil
}

func c01Aggregator(oldest uint32) (*Aggregator, *c01Conn) {
	a := &Aggregator{replicaKey: 1, shardKey: 1}
	a.sh2 = &agent.Agent{}
	a.historicBuckets = map[uint32]*aggregatorBucket{}
	a.configR.ShortWindow = data_model.MaxShortWindow
	for i := 0; i < a.configR.ShortWindow+data_model.FutureWindow; i++ {
		a.recentBuckets = append(a.recentBuckets, newAggregatorBucket(oldest+uint32(i)))
	}
	a.historicHosts = [2][2]map[data_model.TagUnion]int64{{{}, {}}, {{}, {}}}
	a.hostBudgetCache = map[data_model.TagUnion][]tlstatshouse.MetricBudget{}
	a.bucketsToSend = make(chan *aggregatorBucket, 4)
	c := &c01Conn{waiting: map[int64]*rpc.HandlerContext{}, finished: map[int64]bool{}}
	return a, c
}

// registers one long-polled agent request on the bucket (what handleSendSourceBucket does last)
func c01Contribute(c *c01Conn, b *aggregatorBucket) int64 {
	h := &rpc.HandlerContext{}
	h.ResetTo(c, 0)
	lh, _ := h.StartLongpoll(b)
	b.contributors3[lh] = contributor{}
	b.contributorsMetric[0][0].AddCounter(1)
	return lh.QueryID
}

func c01Response(c *c01Conn, q int64) (c01Sent, int) {
	var r c01Sent
	n := 0
	for _, s := range c.sent {
		if s.query == q {
			r = s
			n++
		}
	}
	return r, n
}

// One iteration of goInsert: a recent second handed to an inserter while 0..2 historic seconds of
// arbitrary ages wait (each with one long-polled agent request), historic inserting enabled or not,
// the ClickHouse insert succeeding or failing. Every waiting agent request gets at most one response;
// a response carries discard exactly when the second's rows were in the body of an insert that
// succeeded, or when the second is older than the historic window (deliberate rejection); a failed
// insert answers with an error and no discard; seconds not taken by this iteration keep their
// requests waiting.
func Harness_C01_agg_insert() {
	g := &c01ag
	*g = c01AggGhost{nextQuery: 1}
	g.now = v.NondetU32Range(1_000_000_000, 2_000_000_000)
	g.window = v.NondetU32Range(1, data_model.MaxHistoricWindow)
	g.insertFails = v.NondetBool()
	oldest := g.now - uint32(data_model.MaxShortWindow)
	a, c := c01Aggregator(oldest)
	a.config.InsertHistoricWhen = 2
	a.config.HistoricInserters = v.Choice(2) // 0: historic inserting off
	recent := newAggregatorBucket(oldest - 1)
	qRecent := c01Contribute(c, recent)
	n := v.Choice(3)
	times := make([]uint32, n)
	qs := make([]int64, n)
	bs := make([]*aggregatorBucket, n)
	for i := 0; i < n; i++ {
		times[i] = oldest - v.NondetU32Range(1, 400_000)
		for j := 0; j < i; j++ {
			v.Assume(times[j] != times[i])
		}
		b := newAggregatorBucket(times[i])
		a.historicBuckets[times[i]] = b
		bs[i] = b
		qs[i] = c01Contribute(c, b)
	}
	ch := make(chan *aggregatorBucket, 1)
	ch <- recent
	close(ch)
	sema := semaphore.NewWeighted(1)
	_ = sema.TryAcquire(1)
	a.goInsert(sema, context.Background(), ch, 0)

	v.Assert("C01.agg.one_insert_per_iteration", g.inserts == 1)
	inBody := func(t *aggregatorBucket) bool {
		for _, x := range g.insertTimes {
			if x == t {
				return true
			}
		}
		return false
	}
	v.Assert("C01.agg.recent_second_in_insert_body", inBody(recent))
	r, cnt := c01Response(c, qRecent)
	v.Assert("C01.agg.recent_answered_once", cnt == 1)
	v.Assert("C01.agg.recent_discard_iff_insert_succeeded", r.discard == !g.insertFails && (r.err != nil) == g.insertFails)
	for i := 0; i < n; i++ {
		r, cnt := c01Response(c, qs[i])
		stale := oldest >= g.window && times[i] < oldest-g.window
		_, stillWaiting := a.historicBuckets[times[i]]
		v.Assert("C01.agg.historic_answered_at_most_once", cnt <= 1)
		if cnt == 0 {
			v.Assert("C01.agg.unanswered_second_still_queued", stillWaiting)
			v.Assert("C01.agg.unanswered_second_keeps_its_request", len(a.historicBuckets[times[i]].contributors3) == 1)
			v.Assert("C01.agg.unanswered_request_still_long_polled", c.waiting[qs[i]] != nil)
			v.Assert("C01.agg.unanswered_second_not_in_insert_body", !inBody(bs[i]))
			v.Reach("C01.agg.historic_left_waiting")
			continue
		}
		v.Assert("C01.agg.answered_second_leaves_the_queue", !stillWaiting)
		if stale {
			v.Assert("C01.agg.stale_second_rejected_with_discard_and_not_inserted", r.discard && r.err == nil && !inBody(bs[i]))
			v.Reach("C01.agg.historic_stale_discarded")
		} else {
			v.Assert("C01.agg.historic_answer_only_with_rows_in_insert_body", inBody(bs[i]))
			v.Assert("C01.agg.historic_discard_iff_insert_succeeded", r.discard == !g.insertFails && (r.err != nil) == g.insertFails)
			v.Reach("C01.agg.historic_inserted")
		}
	}
	v.Assert("C01.agg.no_stray_responses", len(c.sent) <= 1+n)
}

func C01AggTagValue(a *Aggregator, tagValue []byte) (int32, bool) { return 0, false }

// handleSendSourceBucket for one request (empty row list; row merging is C03/C04) against an aggregator
// whose recent window is [oldest, oldest+8]: arbitrary second in +-400000 s around it, historic and
// spare flags, replica 1..3, sender's shard matching or not, aggregator in shutdown or not, arbitrary
// historic window. The immediate answer carries discard only for the deliberate rejections of the
// statement (wrong shard, too far in the future, older than the historic window); a late recent
// second is answered keep (no discard); during shutdown nothing is answered; every other request is
// long-polled and registered - exactly once - on the bucket of its second, and that bucket is the one
// the insert conveyor will take (recentBuckets slot of the rounded second, or historicBuckets[time]).
func Harness_C01_agg_handler() {
	g := &c01ag
	*g = c01AggGhost{nextQuery: 1}
	g.now = v.NondetU32Range(1_000_000_000, 2_000_000_000)
	g.window = v.NondetU32Range(1, data_model.MaxHistoricWindow)
	oldest := g.now - uint32(data_model.MaxShortWindow)
	a, c := c01Aggregator(oldest)
	a.replicaKey = int32(1 + v.Choice(3))
	a.historicBuckets[oldest-10] = newAggregatorBucket(oldest - 10) // an already waiting historic second
	newest := a.recentBuckets[len(a.recentBuckets)-1].time
	shutdown := v.NondetBool()
	if shutdown {
		a.bucketsToSend = nil
	}
	var args tlstatshouse.SendSourceBucket3Bytes
	args.Time = oldest - 400_000 + v.NondetU32Range(0, 800_000)
	historic := v.NondetBool()
	args.SetHistoric(historic)
	args.SetSpare(v.NondetBool())
	wrongShard := v.NondetBool()
	args.Header.ShardReplica = a.replicaKey - 1
	if wrongShard {
		args.Header.ShardReplica = a.replicaKey
	}
	args.BuildCommitTs = format.LeastAllowedAgentCommitTs
	var bucket tlstatshouse.SourceBucket3Bytes
	hctx := &rpc.HandlerContext{}
	hctx.ResetTo(c, 0)
	_, err, discard := a.handleSendSourceBucket(hctx, args, bucket)
	v.Assert("C01.agg.handler_no_error", err == nil)

	rounded := args.Time
	for rounded%3 != uint32(a.replicaKey-1) {
		rounded++
	}
	tooOld := oldest >= g.window && rounded < oldest-g.window
	// where is the request registered?
	var regBucket *aggregatorBucket
	regs := 0
	look := func(b *aggregatorBucket) {
		if n := len(b.contributors3); n != 0 {
			regs += n
			regBucket = b
		}
	}
	for _, b := range a.recentBuckets {
		look(b)
	}
	for _, b := range a.historicBuckets {
		look(b)
	}
	polled := len(c.waiting)
	v.Assert("C01.agg.handler_sends_nothing_itself", len(c.sent) == 0)
	switch {
	case wrongShard:
		v.Assert("C01.agg.wrong_shard_rejected", discard && polled == 0 && regs == 0)
		v.Reach("C01.agg.handler_wrong_shard")
	case shutdown:
		v.Assert("C01.agg.shutdown_never_answers_and_never_discards", !discard && polled == 1 && regs == 0)
		v.Reach("C01.agg.handler_shutdown")
	case rounded > newest:
		v.Assert("C01.agg.future_second_rejected", discard && polled == 0 && regs == 0)
		v.Reach("C01.agg.handler_future")
	case historic && tooOld:
		v.Assert("C01.agg.second_beyond_historic_window_rejected", discard && polled == 0 && regs == 0)
		v.Reach("C01.agg.handler_beyond_window")
	case !historic && rounded < oldest:
		v.Assert("C01.agg.late_recent_second_answered_keep", !discard && polled == 0 && regs == 0)
		v.Reach("C01.agg.handler_late_recent_keep")
	default:
		v.Assert("C01.agg.accepted_second_is_long_polled_not_discarded", !discard && polled == 1)
		v.Assert("C01.agg.accepted_second_registered_exactly_once", regs == 1)
		if regs == 1 {
			if rounded < oldest {
				v.Assert("C01.agg.historic_second_registered_on_its_own_bucket", regBucket.time == args.Time && a.historicBuckets[args.Time] == regBucket)
				v.Reach("C01.agg.handler_historic_accepted")
			} else {
				v.Assert("C01.agg.recent_second_registered_on_the_slot_of_its_rounded_time", regBucket.time == rounded && a.recentBuckets[rounded-oldest] == regBucket)
				v.Reach("C01.agg.handler_recent_accepted")
			}
		}
	}
}

// One tick of goTicker (observed where the ticker starts waiting for the next second): the recent
// seconds that left the short window are handed to the insert conveyor with their long-polled
// requests untouched; when the conveyor is full the requests are answered at once - without discard
// and without error - so the agent keeps the second and resends it as historic.
func Harness_C01_agg_ticker() {
	g := &c01ag
	*g = c01AggGhost{nextQuery: 1}
	g.window = 3600
	start := v.NondetU32Range(1_000_000_000, 2_000_000_000)
	a, c := c01Aggregator(start)
	a.config.DisableRemoteConfig = true
	a.replicaKey = int32(1 + v.Choice(3))
	full := v.NondetBool()
	a.bucketsToSend = make(chan *aggregatorBucket, 3)
	if full {
		a.bucketsToSend = make(chan *aggregatorBucket, 1)
		a.bucketsToSend <- newAggregatorBucket(1)
	}
	// the clock moved 1..3 seconds past the short window of the oldest bucket
	k := 1 + v.Choice(3)
	g.now = start + uint32(a.configR.ShortWindow) + uint32(k)
	var qs [3]int64
	var own [3]bool
	var bs [3]*aggregatorBucket
	for i := 0; i < k; i++ {
		bs[i] = a.recentBuckets[i]
		own[i] = bs[i].time%3 == uint32(a.replicaKey-1)
		if own[i] {
			qs[i] = c01Contribute(c, bs[i])
		}
	}
	g.tick = func() {
		for i := 0; i < k; i++ {
			if !own[i] {
				continue
			}
			r, cnt := c01Response(c, qs[i])
			if !full {
				v.Assert("C01.agg.ready_second_queued_for_insert_with_its_request", cnt == 0 && len(bs[i].contributors3) == 1 && c.waiting[qs[i]] != nil)
				v.Reach("C01.agg.ticker_queued")
			} else {
				v.Assert("C01.agg.conveyor_full_answered_once_without_discard", cnt == 1 && !r.discard && r.err == nil && len(bs[i].contributors3) == 0)
				v.Reach("C01.agg.ticker_conveyor_full_keep")
			}
		}
		queued := len(a.bucketsToSend)
		if !full {
			want := 0
			for i := 0; i < k; i++ {
				if own[i] {
					want++
				}
			}
			v.Assert("C01.agg.every_own_ready_second_on_the_conveyor", queued == want)
		}
		v.Assert("C01.agg.window_advanced", a.recentBuckets[0].time == start+uint32(k) && len(a.recentBuckets) == a.configR.ShortWindow+data_model.FutureWindow)
	}
	a.goTicker()
}

func C01AggAfter(d time.Duration) <-chan time.Time {
	g := &c01ag
	g.ticks++
	if g.ticks == 2 {
		g.tick()
		v.Assume(false) // end of the observed tick
	}
	ch := make(chan time.Time, 1)
	ch <- time.Unix(int64(g.now), 0)
	return ch
}
