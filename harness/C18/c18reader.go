//go:build verif

package fsbinlog

import (
	"bytes"
	"hash/crc32"

	v "github.com/VKCOM/statshouse/internal/zzverif"
)

func c18Crc(crc uint32, p []byte) uint32 {
	if len(p) == 0 {
		return crc // crc32.Update of nothing is the identity
	}
	return crc32.Update(crc, crc32.IEEETable, p)
}

// The reader's seek into a binlog file on resume (readAndUpdateCRCIfNeed + readToAndUpdateCrc): a file
// of 0..6 arbitrary bytes that starts at an arbitrary global position (0 for the first file, anything
// for a rotated one) with an arbitrary running crc; resume offset 0..7 bytes into the file; optional
// snapshot meta whose commit position lies 0..offset+1 bytes into the file with an honest or an
// arbitrary crc. With enough bytes and consistent meta the reader ends exactly at the resume offset
// with the crc of everything before it (chained through the meta's crc) and the next byte to read is
// the one at that offset; a commit position after the resume offset, a crc that does not match, or a
// file shorter than the offset is an error - never a silent resume at a wrong place.
func Harness_C18_reader_seek() {
	n := v.Choice(7)
	file := v.NondetBytes(n)
	base := int64(0)
	if v.NondetBool() {
		base = v.NondetIntRange(1, 1<<40)
	}
	crc0 := v.NondetU32()
	a := v.Choice(8) // resume offset inside the file
	var si *seekInfo
	c := 0
	honest := true
	if v.NondetBool() {
		c = v.Choice(a + 2)
		si = &seekInfo{CommitPosition: base + int64(c), CommitTs: 5}
		if c <= n {
			si.CommitCrc = c18Crc(crc0, file[:c])
		}
		if v.NondetBool() {
			honest = false
			si.CommitCrc = v.NondetU32()
		}
	}
	r := bytes.NewReader(file)
	b := &binlogReader{stat: &stat{}}
	pos, crc, err := b.readAndUpdateCRCIfNeed(r, base, crc0, base+int64(a), si)
	if si != nil && c > a {
		v.Assert("C18.seek.commit_after_resume_offset_is_an_error", err != nil)
		return
	}
	if a > n || (si != nil && c > n) {
		v.Assert("C18.seek.short_file_is_an_error", err != nil)
		return
	}
	if si != nil && !honest {
		want := c18Crc(crc0, file[:c])
		v.Assert("C18.seek.meta_crc_mismatch_is_an_error", (err != nil) == (want != si.CommitCrc))
		if err != nil {
			return
		}
	}
	v.Assert("C18.seek.no_error_on_consistent_input", err == nil)
	if err != nil {
		return
	}
	v.Assert("C18.seek.ends_at_resume_offset", pos == base+int64(a) && r.Len() == n-a)
	want := c18Crc(crc0, file[:a])
	if si != nil {
		want = c18Crc(c18Crc(crc0, file[:c]), file[c:a])
	}
	v.Assert("C18.seek.crc_of_everything_before_the_offset", crc == want)
	if base != 0 && si != nil && c > 0 {
		v.Reach("C18.seek.meta_in_rotated_file")
	}
	v.Reach("C18.seek.end")
}
