//go:build verif

package fsbinlog

import (
	v "github.com/VKCOM/statshouse/internal/zzverif"
)

// level codecs are inverse for arbitrary field values
func Harness_C18_lev_codecs() {
	{
		in := levCrc32{Type: magicLevCrc32, Timestamp: v.NondetI32(), Pos: v.NondetI64(), Crc32: v.NondetU32()}
		var out levCrc32
		n, err := readLevCrc32(&out, writeLevCrc32(&in))
		v.Assert("C18.lev.crc32_roundtrip", err == nil && n == levCrcSize && out == in)
	}
	{
		in := levRotateTo{Type: magicLevRotateTo, Timestamp: v.NondetI32(), NextLogPos: v.NondetI64(), Crc32: v.NondetU32(), CurLogHash: v.NondetU64(), NextLogHash: v.NondetU64()}
		var out levRotateTo
		n, err := readLevRotateTo(&out, writeLevRotateTo(&in))
		v.Assert("C18.lev.rotate_to_roundtrip", err == nil && n == levRotateSize && out == in)
	}
	{
		in := levRotateFrom{Type: magicLevRotateFrom, Timestamp: v.NondetI32(), CurLogPos: v.NondetI64(), Crc32: v.NondetU32(), PrevLogHash: v.NondetU64(), CurLogHash: v.NondetU64()}
		var out levRotateFrom
		n, err := readLevRotateFrom(&out, writeLevRotateFrom(&in))
		v.Assert("C18.lev.rotate_from_roundtrip", err == nil && n == levRotateSize && out == in)
	}
	// short input is "not enough data", never a partial event
	k := v.Choice(levCrcSize)
	var out levCrc32
	_, err := readLevCrc32(&out, v.NondetBytes(k))
	v.Assert("C18.lev.truncated_crc_event_rejected", err != nil)
	for _, n := range []int{0, 1, 2, 3, 4, 5, 7, 8} {
		v.Assert("C18.lev.padding_to_4", AddPadding(n)%4 == 0 && AddPadding(n) >= n && AddPadding(n) < n+4)
	}
	v.Reach("C18.lev.end")
}

// an arbitrary 4-aligned position beyond the first 16 KiB (those are only copied aside for the file
// hash), as a machine word so that the byte-wise encoders stay bit-vector arithmetic
func c18Start() int64 { return int64(v.NondetU32())<<2 + 1<<22 }

func c18Binlog(global, local int64, crc uint32) *fsBinlog {
	b := &fsBinlog{}
	b.options.MaxChunkSize = 1 << 30
	b.buffEx = newBuffEx(crc, local, global, 1<<31)
	b.predict.lastPosForCrc = global
	b.predict.fileStartPos = global - local
	return b
}

// append path: from an arbitrary position (offset, crc), 2..3 payloads of 1..6 arbitrary bytes:
// each append is accepted only at the current offset and returns the next one, which advances by the
// 4-byte padded payload length; the buffer is the concatenation of the padded payloads in order;
// an append with a wrong offset is refused and changes nothing.
func Harness_C18_append_offsets() {
	start := c18Start()
	b := c18Binlog(start, 0, v.NondetU32())
	n := 2 + v.Choice(2)
	pos := start
	var want []byte
	for k := 0; k < n; k++ {
		p := v.NondetBytes(1 + v.Choice(6))
		// a wrong offset first
		before := len(b.buffEx.buff)
		_, cur, err := b.putLevToBuffer(pos+4, p, false)
		v.Assert("C18.append.wrong_offset_refused", err != nil && cur == pos && len(b.buffEx.buff) == before)
		_, next, err := b.putLevToBuffer(pos, p, false)
		v.Assert("C18.append.accepted_at_current_offset", err == nil)
		v.Assert("C18.append.next_offset_is_padded_length", next == pos+int64(AddPadding(len(p))))
		want = append(want, p...)
		for len(want)%4 != 0 {
			want = append(want, 0)
		}
		pos = next
	}
	got := b.buffEx.buff
	same := len(got) == len(want)
	if same {
		for j := range want {
			same = v.And(same, got[j] == want[j])
		}
	}
	v.Assert("C18.append.buffer_is_concatenation_in_order", same)
	v.Assert("C18.append.global_offset_tracks_bytes", b.buffEx.rd.offsetGlobal == start+int64(len(want)))
	v.Reach("C18.append.end")
}

// checksum cadence: when writeCrcEveryBytes have passed since the last checksum event, the append is
// followed by a crc event that carries the position right after the payload and the running crc at
// that point, and the next append continues after it
func Harness_C18_crc_event() {
	start := c18Start()
	c0 := v.NondetU32()
	b := c18Binlog(start, 0, c0)
	dist := []int64{writeCrcEveryBytes - 8, writeCrcEveryBytes - 4, writeCrcEveryBytes, writeCrcEveryBytes + 400}[v.Choice(4)]
	b.predict.lastPosForCrc = start - dist
	p := v.NondetBytes(4)
	_, next, err := b.putLevToBuffer(start, p, false)
	v.Assert("C18.crc.append_ok", err == nil)
	expectCrc := dist+4 >= writeCrcEveryBytes
	if expectCrc {
		v.Assert("C18.crc.event_appended", next == start+4+levCrcSize && len(b.buffEx.buff) == 4+levCrcSize)
		var lev levCrc32
		_, err := readLevCrc32(&lev, b.buffEx.buff[4:])
		v.Assert("C18.crc.event_decodes", err == nil)
		v.Assert("C18.crc.event_position_is_end_of_payload", lev.Pos == start+4)
		v.Assert("C18.crc.event_carries_running_crc_of_everything_before_it", lev.Crc32 == updateCrc(c0, p))
		v.Assert("C18.crc.cadence_restarts", b.predict.lastPosForCrc == next)
	} else {
		v.Assert("C18.crc.no_event_before_cadence", next == start+4 && len(b.buffEx.buff) == 4)
	}
	v.Reach("C18.crc.end")
}


// rotation: when the file has reached MaxChunkSize the append is followed by a rotate-to / rotate-from
// pair whose positions, crc and chained hashes agree, and the new file starts at the rotate-from event
func Harness_C18_rotate_events() {
	start := c18Start()
	b := c18Binlog(start, 0, v.NondetU32())
	b.options.MaxChunkSize = 4
	b.predict.fileStartPos = start
	b.predict.currFileHash = v.NondetU64()
	prevHash := b.predict.currFileHash
	p := v.NondetBytes(4)
	_, next, err := b.putLevToBuffer(start, p, false)
	v.Assert("C18.rotate.append_ok", err == nil)
	v.Assert("C18.rotate.both_events_appended", next == start+4+2*levRotateSize && len(b.buffEx.buff) == 4+2*levRotateSize)
	var to levRotateTo
	var from levRotateFrom
	_, err1 := readLevRotateTo(&to, b.buffEx.buff[4:])
	_, err2 := readLevRotateFrom(&from, b.buffEx.buff[4+levRotateSize:])
	v.Assert("C18.rotate.events_decode", err1 == nil && err2 == nil)
	v.Assert("C18.rotate.next_file_starts_after_rotate_to", to.NextLogPos == start+4+levRotateSize && from.CurLogPos == to.NextLogPos)
	v.Assert("C18.rotate.hash_chain", to.CurLogHash == prevHash && from.PrevLogHash == to.CurLogHash && from.CurLogHash == to.NextLogHash)
	v.Assert("C18.rotate.file_bookkeeping", b.predict.fileStartPos == to.NextLogPos && b.buffEx.rd.offsetLocal == levRotateSize && len(b.buffEx.rd.rotatePos) == 1 && b.buffEx.rd.rotatePos[0] == int64(4+levRotateSize))
	v.Reach("C18.rotate.end")
}
