//go:build verif

package api

import (
	"sync"
	"time"

	v "github.com/VKCOM/statshouse/internal/zzverif"
)

// chunk placement arithmetic of the series cache: for every non-monthly table step, any instant t
// (nanoseconds, up to year ~2250) and any whole-hour UTC offset within +-14 h: the chunk containing t
// starts at or before t and ends after it, lasts exactly the chunk duration, starts aligned to the
// chunk duration in local time, chunkStart is idempotent and consecutive chunks tile the axis.
func Harness_C23_chunk_bounds() {
	steps := []time.Duration{time.Second, 5 * time.Second, 15 * time.Second, time.Minute, 5 * time.Minute, 15 * time.Minute, time.Hour, 4 * time.Hour, 24 * time.Hour, 7 * 24 * time.Hour}
	step := steps[v.Choice(len(steps))]
	size, dur := cache2ChunkSizeDuration(0, step)
	v.Assert("C23.chunk.duration_is_size_times_step", time.Duration(size)*step == dur && size >= 1)
	c := &cache2{utcOffset: v.NondetIntRange(-14, 14) * int64(time.Hour)}
	sh := &cache2Shard{cache: c, step: step, chunkDuration: dur, chunkSize: size}
	t := v.NondetIntRange(int64(48*time.Hour), 8_800_000_000_000_000_000)
	start := c.chunkStart(sh, t)
	end := c.chunkEnd(sh, start)
	v.Assert("C23.chunk.contains_t", start <= t && t < end)
	v.Assert("C23.chunk.lasts_chunk_duration", end-start == int64(dur))
	if step <= time.Hour {
		v.Assert("C23.chunk.aligned", start%int64(dur) == 0)
	} else {
		v.Assert("C23.chunk.aligned_in_local_time", (start+c.utcOffset)%int64(dur) == 0)
	}
	v.Assert("C23.chunk.start_idempotent", c.chunkStart(sh, start) == start)
	v.Assert("C23.chunk.tiles_the_axis", c.chunkStart(sh, end) == end && c.chunkStart(sh, end-1) == start)
	v.Reach("C23.chunk.end")
}

func C23Now() time.Time { return time.Unix(1_700_000_000, 0) }

// cache2.invalidate (the real function) on a 1 s shard holding one bucket with eight consecutive one-minute
// chunks: 1..3 sorted invalidated seconds with gaps of 0..130 s (so consecutive seconds fall into the
// same chunk, the next chunk - its first second included - or further) mark exactly the chunks that
// contain an invalidated second; every other chunk keeps its stamp.
func Harness_C23_invalidate_dedup() {
	c := &cache2{}
	sh := &cache2Shard{cache: c, step: time.Second, chunkDuration: time.Minute, chunkSize: 60, bucketM: map[string]*cache2Bucket{}, bucketL: newCache2BucketList()}
	c.shards = map[time.Duration]*cache2Shard{time.Second: sh}
	n := 1 + v.Choice(3)
	base := 1_700_000_000 + v.NondetIntRange(0, 59) // any position inside a minute
	times := make([]int64, n)
	cur := base
	for k := range times {
		cur += v.NondetIntRange(0, 130)
		times[k] = cur
	}
	first := c.chunkStart(sh, base*int64(time.Second))
	b := &cache2Bucket{key: "k"}
	for k := int64(0); k < 8; k++ {
		st := first + k*int64(time.Minute)
		b.times = append(b.times, st)
		b.chunks = append(b.chunks, &cache2Chunk{start: st, end: st + int64(time.Minute)})
	}
	sh.bucketM["k"] = b
	sh.bucketL.add(b)
	c.invalidate(times, 1)
	for _, ch := range b.chunks {
		hit := false
		for _, sec := range times {
			hit = v.Or(hit, v.And(ch.start <= sec*int64(time.Second), sec*int64(time.Second) < ch.end))
		}
		v.Assert("C23.invalidate.chunk_stamped_iff_it_contains_an_invalidated_second", v.Or(v.And(hit, ch.invalidatedAt != 0), v.And(!hit, ch.invalidatedAt == 0)))
	}
	v.Reach("C23.invalidate.end")
}

// trim heap: buckets pushed with arbitrary (play interval, idle period, size) come out in the
// eviction order of `less`: each popped bucket is not preferred less than the next one
func Harness_C23_trim_heap_order() {
	h := newCache2TrimBucketHeap()
	n := 2 + v.Choice(3)
	for k := 0; k < n; k++ {
		h = h.push(cache2TrimBucket{info: cache2BucketRuntimeInfo{
			playInterval: time.Duration(v.NondetIntRange(0, 2)),
			idlePeriod:   time.Duration(v.NondetIntRange(0, 3)),
			size:         int(v.NondetIntRange(0, 3)),
		}})
	}
	v.Assert("C23.heap.len", h.len() == n)
	prev := h.min()
	h = h.pop()
	for h.len() > 0 {
		cur := h.min()
		h = h.pop()
		tmp := cache2TrimBucketHeap{{}, cur, prev}
		v.Assert("C23.heap.pops_in_eviction_order", !tmp.less(1, 2))
		prev = cur
	}
	v.Reach("C23.heap.end")
}

// An invalidation pass over a step shard (invalidateIteratorStart/Next, as cache2Shard.invalidate runs
// it) while the trimmer removes buckets between its steps (removeBucket - any bucket, also the one the
// pass stands on or will visit next, at most one removal per step): every bucket that is still in the
// shard when the pass ends was visited by it, no bucket is visited twice, and map and list stay in step.
func Harness_C23_invalidation_pass_survives_removal() {
	shard := &cache2Shard{bucketM: map[string]*cache2Bucket{}, bucketL: newCache2BucketList()}
	keys := []string{"a", "b", "c"}
	var bs [3]*cache2Bucket
	for i, k := range keys {
		b := &cache2Bucket{key: k}
		bs[i] = b
		shard.bucketM[k] = b
		shard.bucketL.add(b)
	}
	info := &cache2UpdateInfo{}
	info.bucketCountS[0] = 3
	var visited, removed [3]bool
	idx := func(b *cache2Bucket) int {
		for i := range bs {
			if bs[i] == b {
				return i
			}
		}
		return -1
	}
	trimStep := func() {
		if v.NondetBool() {
			k := v.Choice(3)
			if !removed[k] {
				shard.removeBucket(bs[k], info)
				removed[k] = true
			}
		}
	}
	trimStep() // before the pass starts
	b := shard.invalidateIteratorStart()
	for steps := 0; b != nil && steps < 4; steps++ {
		i := idx(b)
		v.Assert("C23.pass.visits_a_shard_bucket_once", i >= 0 && !visited[i])
		if i >= 0 {
			visited[i] = true
		}
		trimStep()
		b = shard.invalidateIteratorNext()
	}
	v.Assert("C23.pass.ends", b == nil)
	left := 0
	for i := range bs {
		if !removed[i] {
			left++
			v.Assert("C23.pass.every_remaining_bucket_was_visited", visited[i])
			v.Assert("C23.pass.remaining_bucket_still_indexed", shard.bucketM[keys[i]] == bs[i])
		} else {
			v.Assert("C23.pass.removed_bucket_detached", bs[i].next == nil && bs[i].prev == nil && bs[i].key == "")
		}
	}
	v.Assert("C23.pass.map_and_list_agree", len(shard.bucketM) == left && shard.bucketL.len() == left && info.bucketCountS[0] == left)
	v.Reach("C23.pass.end")
}

// cache2Bucket.invalidate: merge-join of the sorted invalidated chunk starts (1..3, arbitrary) with the
// bucket's sorted chunk starts (1..3, arbitrary): exactly the chunks whose start is listed get the
// invalidation stamp, all others keep theirs.
func Harness_C23_bucket_invalidate() {
	nb := 1 + v.Choice(3)
	b := &cache2Bucket{}
	for i := 0; i < nb; i++ {
		t := v.NondetIntRange(0, 1000)
		if i > 0 {
			v.Assume(t > b.times[i-1])
		}
		b.times = append(b.times, t)
		b.chunks = append(b.chunks, &cache2Chunk{start: t, invalidatedAt: 7})
	}
	nt := 1 + v.Choice(3)
	var times []int64
	for i := 0; i < nt; i++ {
		t := v.NondetIntRange(0, 1000)
		if i > 0 {
			v.Assume(t > times[i-1])
		}
		times = append(times, t)
	}
	b.invalidate(times, 99)
	for i, c := range b.chunks {
		listed := false
		for _, t := range times {
			listed = v.Or(listed, t == b.times[i])
		}
		v.Assert("C23.bucket.listed_chunk_invalidated_others_untouched", v.Or(v.And(listed, c.invalidatedAt == 99), v.And(!listed, c.invalidatedAt == 7)))
	}
	v.Reach("C23.bucket.end")
}

// cache2.setLimits: for configured limits (hard from {-1,0,1,2,5,10,100,1000}, soft arbitrary in -10..1000) the stored limits are
// consistent: no limit at all (both 0), or 0 < soft < hard. Requests block while the cache is above the
// hard limit and the trimmer only works down to the soft limit, so a soft limit at or above the hard
// one would leave requests blocked with nothing trimming.
func Harness_C23_limits_consistent() {
	c := &cache2{}
	c.trimCond = sync.NewCond(&c.mu)
	c.allocCond = sync.NewCond(&c.mu)
	hard := []int{-1, 0, 1, 2, 5, 10, 100, 1000}[v.Choice(8)] // concrete: the default soft limit is 0.8 x hard in floating point
	soft := int(v.NondetIntRange(-10, 1000))
	c.setLimits(cache2Limits{maxSize: hard, maxSizeSoft: soft})
	got := c.limits
	if hard <= 0 {
		v.Assert("C23.limits.no_hard_limit_means_no_soft_limit", got.maxSize == 0 && got.maxSizeSoft == 0)
	} else {
		v.Assert("C23.limits.hard_limit_kept", got.maxSize == hard)
		v.Assert("C23.limits.soft_limit_below_hard_limit", got.maxSizeSoft < got.maxSize)
		v.Assert("C23.limits.soft_limit_not_negative", got.maxSizeSoft >= 0)
		if soft > 0 && soft < hard {
			v.Assert("C23.limits.valid_soft_limit_kept", got.maxSizeSoft == soft)
		}
	}
	v.Reach("C23.limits.end")
}
