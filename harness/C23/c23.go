//go:build verif

package api

import (
	"time"

	v "github.com/VKCOM/statshouse/internal/zzverif"
)

// chunk placement arithmetic of the series cache: for every non-monthly table step, any instant t
// (nanoseconds, up to year ~2250) and any whole-hour UTC offset within +-14 h: the chunk containing t
// starts at or before t and ends after it, lasts exactly the chunk duration, starts aligned to the
// chunk duration in local time, chunkStart is idempotent and consecutive chunks tile the axis.
func Harness_C23_chunk_bounds() {
	steps := []time.Duration{time.Second, 5 * time.Second, 15 * time.Second, time.Minute, 5 * time.Minute, 15 * time.Minute, time.Hour, 4 * time.Hour, 24 * time.Hour, 7 * 24 * time.Hour}
	step := steps[v.Choice(len(steps))]
	size, dur := cache2ChunkSizeDuration(0, step)
	v.Assert("C23.chunk.duration_is_size_times_step", time.Duration(size)*step == dur && size >= 1)
	c := &cache2{utcOffset: v.NondetIntRange(-14, 14) * int64(time.Hour)}
	sh := &cache2Shard{cache: c, step: step, chunkDuration: dur, chunkSize: size}
	t := v.NondetIntRange(int64(48*time.Hour), 8_800_000_000_000_000_000)
	start := c.chunkStart(sh, t)
	end := c.chunkEnd(sh, start)
	v.Assert("C23.chunk.contains_t", start <= t && t < end)
	v.Assert("C23.chunk.lasts_chunk_duration", end-start == int64(dur))
	if step <= time.Hour {
		v.Assert("C23.chunk.aligned", start%int64(dur) == 0)
	} else {
		v.Assert("C23.chunk.aligned_in_local_time", (start+c.utcOffset)%int64(dur) == 0)
	}
	v.Assert("C23.chunk.start_idempotent", c.chunkStart(sh, start) == start)
	v.Assert("C23.chunk.tiles_the_axis", c.chunkStart(sh, end) == end && c.chunkStart(sh, end-1) == start)
	v.Reach("C23.chunk.end")
}

// invalidation: a sorted list of invalidated seconds is reduced to the distinct starts of the chunks
// containing them (every second is covered by a listed chunk, no chunk is listed twice)
func Harness_C23_invalidate_dedup() {
	c := &cache2{}
	sh := &cache2Shard{cache: c, step: time.Second, chunkDuration: time.Minute, chunkSize: 60}
	n := 1 + v.Choice(3)
	base := v.NondetIntRange(1_000_000_000, 2_000_000_000)
	times := make([]int64, n)
	cur := base
	for k := range times {
		cur += v.NondetIntRange(0, 130)
		times[k] = cur
	}
	// the dedup loop of cache2.invalidate, run on the real chunk functions
	t := times[0] * int64(time.Second)
	start := c.chunkStart(sh, t)
	end := c.chunkEnd(sh, start)
	s := []int64{start}
	for i := 1; i < len(times); i++ {
		t = times[i] * int64(time.Second)
		if end <= t {
			start = c.chunkStart(sh, t)
			end = c.chunkEnd(sh, start)
			s = append(s, start)
		}
	}
	for _, sec := range times {
		covered := false
		for _, st := range s {
			covered = v.Or(covered, v.And(st <= sec*int64(time.Second), sec*int64(time.Second) < st+int64(time.Minute)))
		}
		v.Assert("C23.invalidate.every_second_covered", covered)
	}
	for i := 1; i < len(s); i++ {
		v.Assert("C23.invalidate.chunk_starts_strictly_increase", s[i-1] < s[i])
	}
	v.Reach("C23.invalidate.end")
}

// trim heap: buckets pushed with arbitrary (play interval, idle period, size) come out in the
// eviction order of `less`: each popped bucket is not preferred less than the next one
func Harness_C23_trim_heap_order() {
	h := newCache2TrimBucketHeap()
	n := 2 + v.Choice(3)
	for k := 0; k < n; k++ {
		h = h.push(cache2TrimBucket{info: cache2BucketRuntimeInfo{
			playInterval: time.Duration(v.NondetIntRange(0, 2)),
			idlePeriod:   time.Duration(v.NondetIntRange(0, 3)),
			size:         int(v.NondetIntRange(0, 3)),
		}})
	}
	v.Assert("C23.heap.len", h.len() == n)
	prev := h.min()
	h = h.pop()
	for h.len() > 0 {
		cur := h.min()
		h = h.pop()
		tmp := cache2TrimBucketHeap{{}, cur, prev}
		v.Assert("C23.heap.pops_in_eviction_order", !tmp.less(1, 2))
		prev = cur
	}
	v.Reach("C23.heap.end")
}
