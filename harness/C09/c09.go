//go:build verif

package agent

import (
	"fmt"
	"io"
	"io/fs"
	"os"
	"sort"
	"time"

	v "github.com/VKCOM/statshouse/internal/zzverif"
)

// ---------------------------------------------------------------- file system model
// The os / *os.File entry points disk_cache.go uses are replaced (engine stubs "model:") by this
// in-memory file table. A crash is modelled on the table: memory state is dropped, files survive,
// the final write may be cut at any byte.

type c09FileT struct {
	name string
	data []byte
}

type c09Handle struct {
	f      *c09FileT
	pos    int64
	closed bool
}

var (
	c09FS    map[string]*c09FileT
	c09Open  map[*os.File]*c09Handle
	c09Seq   int
	c09Clock int64
)

func c09Reset() {
	c09FS = map[string]*c09FileT{}
	c09Open = map[*os.File]*c09Handle{}
	c09Seq = 0
	c09Clock = 1_700_000_000
}

type c09DirEntry struct{ name string }

func (e c09DirEntry) Name() string               { return e.name }
func (e c09DirEntry) IsDir() bool                { return false }
func (e c09DirEntry) Type() fs.FileMode          { return 0 }
func (e c09DirEntry) Info() (fs.FileInfo, error) { return nil, nil }

type c09Info struct {
	name string
	size int64
}

func (i c09Info) Name() string       { return i.name }
func (i c09Info) Size() int64        { return i.size }
func (i c09Info) Mode() fs.FileMode  { return 0 }
func (i c09Info) ModTime() time.Time { return time.Time{} }
func (i c09Info) IsDir() bool        { return false }
func (i c09Info) Sys() any           { return nil }

func C09MkdirAll(path string, perm os.FileMode) error { return nil }

func C09ReadDir(dir string) ([]os.DirEntry, error) {
	var names []string
	for n := range c09FS {
		if len(n) > len(dir)+1 && n[:len(dir)+1] == dir+"/" {
			names = append(names, n[len(dir)+1:])
		}
	}
	sort.Strings(names)
	var out []os.DirEntry
	for _, n := range names {
		out = append(out, c09DirEntry{name: n})
	}
	return out, nil
}

func C09Stat(name string) (os.FileInfo, error) {
	f, ok := c09FS[name]
	if !ok {
		return nil, os.ErrNotExist
	}
	return c09Info{name: name, size: int64(len(f.data))}, nil
}

func C09OpenFile(name string, flag int, perm os.FileMode) (*os.File, error) {
	f, ok := c09FS[name]
	if flag&os.O_CREATE != 0 {
		if ok && flag&os.O_EXCL != 0 {
			return nil, os.ErrExist
		}
		if !ok {
			f = &c09FileT{name: name}
			c09FS[name] = f
		}
	} else if !ok {
		return nil, os.ErrNotExist
	}
	h := new(os.File)
	c09Open[h] = &c09Handle{f: f}
	return h, nil
}

func C09Remove(name string) error {
	if _, ok := c09FS[name]; !ok {
		return os.ErrNotExist
	}
	delete(c09FS, name)
	return nil
}

func C09WriteAt(fp *os.File, b []byte, off int64) (int, error) {
	h := c09Open[fp]
	if h == nil || h.closed {
		return 0, os.ErrClosed
	}
	for int64(len(h.f.data)) < off+int64(len(b)) {
		h.f.data = append(h.f.data, 0)
	}
	copy(h.f.data[off:], b)
	return len(b), nil
}

func C09ReadAt(fp *os.File, b []byte, off int64) (int, error) {
	h := c09Open[fp]
	if h == nil || h.closed {
		return 0, os.ErrClosed
	}
	if off >= int64(len(h.f.data)) {
		if len(b) == 0 {
			return 0, nil
		}
		return 0, io.EOF
	}
	n := copy(b, h.f.data[off:])
	if n < len(b) {
		return n, io.EOF
	}
	return n, nil
}

func C09Seek(fp *os.File, offset int64, whence int) (int64, error) {
	h := c09Open[fp]
	if h == nil || h.closed {
		return 0, os.ErrClosed
	}
	h.pos = offset
	return offset, nil
}

func C09Read(fp *os.File, b []byte) (int, error) {
	h := c09Open[fp]
	if h == nil || h.closed {
		return 0, os.ErrClosed
	}
	if h.pos >= int64(len(h.f.data)) {
		return 0, io.EOF
	}
	n := copy(b, h.f.data[h.pos:])
	h.pos += int64(n)
	return n, nil
}

func C09Close(fp *os.File) error {
	h := c09Open[fp]
	if h == nil || h.closed {
		return os.ErrClosed
	}
	h.closed = true
	return nil
}

func C09Now() time.Time { return time.Unix(c09Clock, 0) }

// file names sort in creation order (the code's own stated reliance on the time format)
func C09Format(t time.Time, layout string) string {
	c09Seq++
	return fmt.Sprintf("%09d", c09Seq)
}

// ---------------------------------------------------------------- histories

type c09Sec struct {
	id     int64
	time   uint32
	data   []byte
	erased bool
}

const c09Dir = "/c09"

func c09Logf(format string, args ...interface{}) {}

// History of 1..`ops` operations (put of a second with an arbitrary time and 0..2 arbitrary bytes,
// erase of a known second, get of a known second), then a restart: clean Close, or a crash that
// tears the last put at an arbitrary byte, or a crash that tears the last erase marker after 1..3
// bytes. After the restart the cache is drained. It returns exactly the seconds put and not erased,
// in write order, byte for byte (possibly without the second whose write was torn), never an erased
// second; sizes are exact; fully erased files are removed once no longer written to.
func c09History(ops int, tearErase bool) {
	c09Reset()
	d, err := makeDiscCacheShard(c09Dir, c09Logf)
	if err != nil {
		panic("make shard: " + err.Error())
	}
	var secs []*c09Sec
	var scratch []byte
	lastPut := -1      // index in secs of the last operation if it was a put
	lastErase := -1    // index in secs of the last operation if it was an erase
	var lastEraseOrig [4]byte
	var lastSizeBefore int64
	n := 1 + v.Choice(ops)
	for o := 0; o < n; o++ {
		lastPut, lastErase = -1, -1
		switch v.Choice(3) {
		case 0: // put
			data := v.NondetBytes(v.Choice(3))
			tm := v.NondetU32()
			if d.writingFile != nil {
				lastSizeBefore = d.writingFile.size
			} else {
				lastSizeBefore = 0
			}
			id, err := d.PutBucket(tm, append([]byte(nil), data...))
			v.Assert("C09.put.ok", err == nil && id > 0)
			secs = append(secs, &c09Sec{id: id, time: tm, data: data})
			lastPut = len(secs) - 1
		case 1: // erase a live second
			var live []int
			for i, s := range secs {
				if !s.erased {
					live = append(live, i)
				}
			}
			if len(live) == 0 {
				continue
			}
			i := live[v.Choice(len(live))]
			sec := d.knownBuckets[secs[i].id]
			copy(lastEraseOrig[:], c09FS[sec.file.name].data[sec.pos:sec.pos+4])
			c09ErasePos.file, c09ErasePos.pos = sec.file.name, sec.pos
			v.Assert("C09.erase.ok", d.EraseBucket(secs[i].id) == nil)
			secs[i].erased = true
			lastErase = i
		case 2: // get a live second
			for _, s := range secs {
				if s.erased {
					continue
				}
				got, err := d.GetBucket(s.id, s.time, &scratch)
				v.Assert("C09.get.ok", err == nil)
				if err == nil {
					v.Assert("C09.get.identical_bytes", string(got) == string(s.data))
				}
				break
			}
		}
		c09CheckSizes("live", d)
	}
	// restart
	tornPut := -1
	tornErase, tornEraseBytes := false, 0
	switch mode := v.Choice(3); {
	case mode == 1 && lastPut >= 0:
		// crash: the final put (header write then body write, appended at the end of the writing
		// file) is cut after k bytes; everything in memory is lost
		f := c09FS[d.writingFile.name]
		k := int64(v.Choice(int(headerSize) + len(secs[lastPut].data) + 1))
		if k < int64(headerSize)+int64(len(secs[lastPut].data)) {
			f.data = f.data[:lastSizeBefore+k]
			tornPut = lastPut
		}
	case mode == 2 && lastErase >= 0 && tearErase:
		// crash while overwriting the 4-byte magic of the erased second: only the first j bytes landed
		j := 1 + v.Choice(3)
		tornErase, tornEraseBytes = true, j
		c09TearErase(lastEraseOrig, j)
	default:
		d.Close()
	}
	d2, err := makeDiscCacheShard(c09Dir, c09Logf)
	if err != nil {
		panic("reopen: " + err.Error())
	}
	var want []*c09Sec
	for i, s := range secs {
		if tornErase && i == lastErase && tornEraseBytes < 3 {
			// the marker differs from the good magic only in bytes 2 and 3: a tear before byte 3 leaves
			// the record intact, i.e. the erase did not happen - the second legitimately comes back
			want = append(want, s)
			continue
		}
		if !s.erased && i != tornPut {
			want = append(want, s)
		}
	}
	got := 0
	for {
		tm, id := d2.ReadNextTailSecond()
		if id == 0 {
			break
		}
		v.Assert("C09.restart.no_more_seconds_than_expected", got < len(want))
		if got >= len(want) {
			break
		}
		v.Assert("C09.restart.seconds_in_write_order", tm == want[got].time)
		b, err := d2.GetBucket(id, tm, &scratch)
		v.Assert("C09.restart.second_readable", err == nil)
		if err == nil {
			v.Assert("C09.restart.identical_bytes", string(b) == string(want[got].data))
		}
		got++
	}
	v.Assert("C09.restart.every_unerased_second_comes_back", got == len(want))
	c09CheckSizes("reopened", d2)
	v.Reach("C09.end")
}

var c09ErasePos struct {
	file string
	pos  int64
}

// the 4-byte marker overwrite stopped after j bytes: the rest of the old magic is still on disk
func c09TearErase(orig [4]byte, j int) {
	f := c09FS[c09ErasePos.file]
	if f == nil {
		return // the file was already removed: nothing left to tear
	}
	copy(f.data[c09ErasePos.pos+int64(j):c09ErasePos.pos+4], orig[j:])
}

// reported sizes match the files on disk; a file whose seconds were all erased is gone unless it is
// the file still being written
func c09CheckSizes(tag string, d *diskCacheShard) {
	total, unsent := d.TotalFileSize()
	var disk int64
	for _, f := range c09FS {
		disk += int64(len(f.data))
	}
	v.Assert("C09."+tag+".total_size_matches_files", total == disk)
	v.Assert("C09."+tag+".unsent_at_most_total", unsent <= total && unsent >= 0)
}

func Harness_C09_history_2ops() { c09History(2, false) }
func Harness_C09_history_3ops() { c09History(3, false) }
func Harness_C09_torn_erase_3ops() { c09History(3, true) }

// Two restarts without any crash: 2..3 seconds are put and the cache is closed; the second run re-reads
// only a prefix of the tail (0..all seconds), erases an arbitrary subset of the seconds it re-read
// (they were acknowledged) and closes; the third run drains the cache: exactly the seconds never
// erased come back, in write order, byte for byte - also those the second run had not re-read yet.
func Harness_C09_two_restarts() {
	c09Reset()
	d, err := makeDiscCacheShard(c09Dir, c09Logf)
	if err != nil {
		panic("make shard: " + err.Error())
	}
	var secs []*c09Sec
	n := 2 + v.Choice(2)
	for i := 0; i < n; i++ {
		data := v.NondetBytes(v.Choice(3))
		tm := v.NondetU32()
		id, err := d.PutBucket(tm, append([]byte(nil), data...))
		v.Assert("C09.two.put_ok", err == nil && id > 0)
		secs = append(secs, &c09Sec{id: id, time: tm, data: data})
	}
	d.Close()
	d2, err := makeDiscCacheShard(c09Dir, c09Logf)
	if err != nil {
		panic("reopen: " + err.Error())
	}
	k := v.Choice(n + 1) // seconds re-read by the second run
	for i := 0; i < k; i++ {
		tm, id := d2.ReadNextTailSecond()
		v.Assert("C09.two.second_run_rereads_in_write_order", id != 0 && tm == secs[i].time)
		if id == 0 {
			return
		}
		if v.NondetBool() {
			v.Assert("C09.two.erase_ok", d2.EraseBucket(id) == nil)
			secs[i].erased = true
		}
	}
	d2.Close()
	d3, err := makeDiscCacheShard(c09Dir, c09Logf)
	if err != nil {
		panic("reopen 2: " + err.Error())
	}
	var want []*c09Sec
	for _, s := range secs {
		if !s.erased {
			want = append(want, s)
		}
	}
	var scratch []byte
	got := 0
	for {
		tm, id := d3.ReadNextTailSecond()
		if id == 0 {
			break
		}
		v.Assert("C09.two.no_more_seconds_than_expected", got < len(want))
		if got >= len(want) {
			break
		}
		v.Assert("C09.two.seconds_in_write_order", tm == want[got].time)
		b, err := d3.GetBucket(id, tm, &scratch)
		v.Assert("C09.two.second_readable", err == nil)
		if err == nil {
			v.Assert("C09.two.identical_bytes", string(b) == string(want[got].data))
		}
		got++
	}
	v.Assert("C09.two.every_unerased_second_comes_back", got == len(want))
	if k < n && k > 0 {
		v.Reach("C09.two.partial_reread")
	}
	v.Reach("C09.two.end")
}
