//go:build verif

package agent

import (
	"sync"
	"time"

	"github.com/VKCOM/statshouse/internal/data_model"
	"github.com/VKCOM/statshouse/internal/format"
	v "github.com/VKCOM/statshouse/internal/zzverif"
)

func c08Shard(cur, send uint32) *Shard {
	s := &Shard{CurrentTime: cur, SendTime: send}
	for i := range s.SuperQueue {
		s.SuperQueue[i] = &data_model.MetricsBucket{}
	}
	s.cond = sync.NewCond(&s.mu)
	s.BucketsToPreprocess = make(chan *data_model.MetricsBucket, 1)
	return s
}

// One placement step from an arbitrary valid shard state (SendTime <= CurrentTime, no gap in the
// receive queue) for an arbitrary event timestamp, resolution in {1, 5, 15, 60} and resolution hash:
// the chosen ring slot is the one of a second sigma with SendTime <= sigma < SendTime+128 (not yet
// flushed, and not aliasing a second still to be sent), sigma is never earlier than the event's
// clamped and rounded timestamp, the stored timestamp is a multiple of the resolution, the clamp flag
// is raised exactly for timestamps more than 3 s in the future, and when the row is not late sigma
// depends only on (timestamp, resolution, hash).
func Harness_C08_placement() {
	cur := v.NondetU32Range(1_000_000_000, 2_000_000_000)
	send := v.NondetU32Range(999_999_000, 2_000_000_000)
	// SendTime runs at most 2 s ahead of CurrentTime (the jump-ahead in flushBuckets keeps the ring
	// alignment, see Harness_C08_flush) and at most 5 s behind it while data is accepted (no gap)
	v.Assume(send <= cur+2)
	s := c08Shard(cur, send)
	v.Assume(s.gapInReceivingQueueLocked() <= 0)
	res := []int{1, 5, 15, 60}[v.Choice(4)]
	meta := &format.MetricMetaValue{MetricID: 7, EffectiveResolution: res}
	ts := v.NondetU32Range(0, 2_100_000_000)
	hash := v.NondetU64()
	key := &data_model.Key{Timestamp: ts, Metric: 7}
	b, clamped := s.resolutionShardFromHashLocked(key, hash, meta)
	// reference slot
	t := ts
	if t == 0 {
		t = cur
	}
	wantClamp := t > cur+superQueueFutureSlots
	if wantClamp {
		t = cur + superQueueFutureSlots
	}
	v.Assert("C08.place.clamped_flag_iff_more_than_3s_in_future", clamped == wantClamp)
	r := uint32(res)
	rounded := t / r * r
	v.Assert("C08.place.timestamp_rounded_to_resolution", key.Timestamp == rounded)
	v.Assert("C08.place.timestamp_is_multiple_of_resolution", key.Timestamp%r == 0)
	var sigma uint32
	late := false
	if res == 1 {
		sigma = rounded
		if sigma < send {
			sigma, late = send, true
		}
	} else {
		shard := uint32((hash & 0xFFFFFFFF) * uint64(r) >> 32)
		v.Assert("C08.place.spread_within_resolution", shard < r)
		sigma = rounded + r + shard
		if sigma < send {
			late = true
			sigma += (send - sigma + r - 1) / r * r
		}
	}
	_ = late
	v.Assert("C08.place.not_yet_flushed", sigma >= send)
	v.Assert("C08.place.ring_safe_no_alias_with_a_second_still_to_send", sigma-send < superQueueLen)
	v.Assert("C08.place.never_earlier_than_the_event", sigma >= rounded)
	// the bucket handed back is the ring slot of sigma, and of no other second in the window
	idx := -1
	for i := range s.SuperQueue {
		if s.SuperQueue[i] == b {
			idx = i
		}
	}
	v.Assert("C08.place.exactly_one_bucket_of_the_ring", idx >= 0)
	v.Assert("C08.place.bucket_is_slot_of_sigma", uint32(idx) == sigma%superQueueLen)
	v.Reach("C08.place.end")
}

// gap detection: data is discarded exactly while CurrentTime has run more than 5 s ahead of SendTime
// (the receive queue has a gap) or after shutdown
func Harness_C08_gap() {
	cur := v.NondetU32Range(1_000_000_000, 2_000_000_000)
	send := v.NondetU32Range(999_999_000, 2_000_000_000)
	s := c08Shard(cur, send)
	s.stopReceivingIncomingData = v.NondetBool()
	want := v.Or(s.stopReceivingIncomingData, int64(cur) > int64(send)+5)
	v.Assert("C08.gap.discard_iff_gap_or_shutdown", s.shouldDiscardIncomingData() == want)
	v.Reach("C08.gap.end")
}

// One flush step for an arbitrary clock reading (pause, jump forward, no move, step back): SendTime
// never decreases and never passes CurrentTime, CurrentTime never goes back, a jump ahead keeps the
// ring alignment of SendTime, at most one bucket is handed to preprocessing while the channel is
// occupied, that bucket carries its own second and its ring slot is replaced by a fresh empty bucket.
func Harness_C08_flush() {
	// concrete seconds and distances around the thresholds of the code (window 125 = 128-3, ring 128);
	// four sub-second readings around the 1.3 s agent window (a symbolic time.Time makes every clock
	// comparison a slow query)
	cur := uint32(7_812_500*superQueueLen) + []uint32{0, 1, 127}[v.Choice(3)] // three ring phases of a concrete second
	send := cur - []uint32{0, 1, 2, 5, 6, 124, 125, 126, 127, 128, 129, 300}[v.Choice(12)]
	s := c08Shard(cur, send)
	// the second about to be sent holds data or not
	if v.NondetBool() {
		k := data_model.Key{Metric: 1, Timestamp: send}
		s.SuperQueue[send%superQueueLen].GetOrCreateMultiItem(&k, nil, nil)
	}
	old := s.SuperQueue
	nowSec := int64(cur) + []int64{-3, 0, 1, 2, 3, 130, 400}[v.Choice(7)]
	nowNs := []int64{0, 299_999_999, 300_000_000, 999_999_999}[v.Choice(4)] // around the 1.3 s agent window
	s.flushBuckets(time.Unix(nowSec, nowNs))
	v.Assert("C08.flush.current_time_never_goes_back", s.CurrentTime >= cur && int64(s.CurrentTime) == max(int64(cur), nowSec))
	v.Assert("C08.flush.send_time_never_decreases", s.SendTime >= send)
	// SendTime may overshoot CurrentTime by up to 2 s right after a jump ahead (it advances in
	// whole ring lengths); it is then simply not advanced until the clock catches up
	v.Assert("C08.flush.send_time_at_most_2s_ahead_of_current_time", s.SendTime <= s.CurrentTime+2)
	if s.SendTime-send >= superQueueLen && len(s.BucketsToPreprocess) == 0 {
		v.Assert("C08.flush.jump_ahead_keeps_ring_alignment", (s.SendTime-send)%superQueueLen < superQueueLen)
	}
	sent := len(s.BucketsToPreprocess)
	v.Assert("C08.flush.at_most_one_bucket_while_channel_occupied", sent <= 1)
	if sent == 1 {
		b := <-s.BucketsToPreprocess
		v.Assert("C08.flush.bucket_carries_its_own_second", b.Time < s.SendTime && b.Time >= send)
		slot := b.Time % superQueueLen
		v.Assert("C08.flush.bucket_came_from_its_ring_slot", old[slot] == b)
		v.Assert("C08.flush.slot_replaced_by_fresh_bucket", s.SuperQueue[slot] != b && s.SuperQueue[slot].Empty())
		v.Assert("C08.flush.sending_stops_after_handing_over", s.SendTime == b.Time+1)
	}
	// seconds skipped without sending are multiples of the ring length or empty seconds during a gap
	v.Reach("C08.flush.end")
}
