//go:build verif

package data_model

import (
	"bytes"

	"github.com/VKCOM/statshouse/internal/format"
	v "github.com/VKCOM/statshouse/internal/zzverif"
)

// The resolution hash that spreads a low-resolution row over its send seconds (OriginalHash /
// OriginalMarshalAppend) depends on the event only: arbitrary metric id, tags 0, 1 and 3 arbitrary
// strings of 0..2 bytes, and a scratch buffer that already holds 0..3 arbitrary bytes from earlier
// work (the receiver reuses one scratch for every event) - the marshalled key and the hash are the same
// as with an empty scratch. xxh3 is an uninterpreted function of the marshalled bytes.
func Harness_C08_resolution_hash_ignores_scratch() {
	h := &MappedMetricHeader{MetricMeta: &format.MetricMetaValue{MetricID: v.NondetI32()}}
	for _, i := range []int{0, 1, 3} {
		h.OriginalTagValues[i] = v.NondetBytes(v.Choice(3))
	}
	dirty := v.NondetBytes(v.Choice(4))
	cleanBytes, cleanHash := h.OriginalHash(nil)
	cleanCopy := append([]byte(nil), cleanBytes...)
	dirtyBytes, dirtyHash := h.OriginalHash(dirty)
	v.Assert("C08.hash.marshalled_key_independent_of_scratch_contents", bytes.Equal(cleanCopy, dirtyBytes))
	v.Assert("C08.hash.hash_independent_of_scratch_contents", cleanHash == dirtyHash)
	v.Reach("C08.hash.end")
}
