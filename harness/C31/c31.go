//go:build verif

package balancer

import (
	"errors"
	"sync"
	"time"

	"github.com/VKCOM/statshouse/internal/data_model/gen2/tlstatshouse"
	v "github.com/VKCOM/statshouse/internal/zzverif"
)

// newPktBuffer without the 2 x 200 preallocated 64 KiB frames (an allocation-reuse optimisation that
// costs the interpreter ~0.5 s per explored path); push/pop/swap are the real ones
func c31NewBuffer() *pktBuffer {
	b := &pktBuffer{}
	b.cond = sync.NewCond(&b.mu)
	return b
}

// Batching buffer under every schedule: n packets are accepted (push), a consumer runs the sender's
// pop loop (bounded to 3 rounds), virtual timers (the swapWaitMax batch timeout) may fire at any
// scheduling point. At quiescence - no goroutine can run, no timer is armed - every accepted packet
// has been handed to the writer byte for byte and in order, unless the consumer used up its rounds.
// This is "forwarded within a bounded delay even if no further packets arrive": the only event
// left to wait for would be another push.
func c31Batch(consumerFirst bool, maxN, maxRounds int) {
	v.NativeQuiesce = 1500 * time.Millisecond // native runs: let the real 1 s batch timer fire
	b := c31NewBuffer()
	n := 1 + v.Choice(maxN)
	var sent [][]byte
	var got [][]byte
	rounds := 0
	consumer := func() {
		for rounds < maxRounds && len(got) < n {
			rounds++
			_ = b.pop(func(pkts [][]byte) (int, error) {
				for _, p := range pkts {
					got = append(got, append([]byte(nil), p...))
				}
				return len(pkts) - 1, nil
			})
		}
	}
	if consumerFirst {
		go consumer()
	}
	for k := 0; k < n; k++ {
		pkt := []byte{v.NondetU8(), byte(k)}
		sent = append(sent, append([]byte(nil), pkt...))
		_, ok := b.push(pkt)
		v.Assert("C31.push_accepted_while_not_full", ok)
	}
	if !consumerFirst {
		go consumer()
	}
	v.Quiesce()
	exhausted := rounds >= maxRounds && len(got) < n
	if !exhausted {
		v.Assert("C31.every_accepted_packet_forwarded_without_further_pushes", len(got) == n)
	}
	for k := range got {
		if k < len(sent) {
			v.Assert("C31.forwarded_in_order_byte_for_byte", len(got[k]) == 2 && got[k][0] == sent[k][0] && got[k][1] == sent[k][1])
		}
	}
	v.Assert("C31.nothing_forwarded_twice", len(got) <= n)
	v.Reach("C31.batch.end")
}

func Harness_C31_batch_timeout_push_first()     { c31Batch(false, 2, 3) }
func Harness_C31_batch_timeout_consumer_first() { c31Batch(true, 1, 2) }
func Harness_C31_batch_timeout_consumer_first_2pkts() { c31Batch(true, 2, 2) }

// Failover and drop accounting, sequential: primary buffer full / secondary buffer full in every
// combination; a packet is dropped only when both are full, the drop is counted and its bytes are
// added to the would-block report; otherwise it lands in exactly one buffer, and writing to the
// secondary swaps the roles and asks the stuck primary to reconnect.
func Harness_C31_failover_and_drop_accounting() {
	e := &Egress{}
	mk := func(full bool) *tcpSender {
		s := &tcpSender{buf: c31NewBuffer(), reconCh: make(chan struct{}, 1), stats: &e.stats}
		if full {
			s.buf.wi = bufferLen
		} else {
			s.buf.wi = []int{0, 1, bufferLen - 1}[v.Choice(3)]
		}
		return s
	}
	pf, sf := v.NondetBool(), v.NondetBool()
	prim, sec := mk(pf), mk(sf)
	e.pool = &tcpPool{primary: prim, secondary: sec, closed: make(chan struct{})}
	e.pool.primPtr = &e.pool.primary
	e.pool.secPtr = &e.pool.secondary
	if v.NondetBool() {
		// roles already swapped by an earlier failover: the sender that reports drops upstream is
		// still the one with an upstream address, i.e. pool.primary
		e.pool.primPtr, e.pool.secPtr = e.pool.secPtr, e.pool.primPtr
		prim, sec = sec, prim
		pf, sf = sf, pf
	}
	first := e.pool.primPtr
	pw, sw := prim.buf.wi, sec.buf.wi
	pkt := []byte{v.NondetU8(), v.NondetU8(), v.NondetU8()}
	c0 := pkt[0]
	_, err := e.pool.writeLocked(pkt)
	switch {
	case !pf:
		v.Assert("C31.failover.primary_takes_it", err == nil && prim.buf.wi == pw+1 && sec.buf.wi == sw)
		v.Assert("C31.failover.stored_bytes", len(prim.buf.w[pw]) == 3 && prim.buf.w[pw][0] == c0)
		v.Assert("C31.failover.roles_unchanged", e.pool.primPtr == first)
	case !sf:
		v.Assert("C31.failover.secondary_takes_it", err == nil && sec.buf.wi == sw+1 && prim.buf.wi == pw)
		v.Assert("C31.failover.roles_swapped", e.pool.secPtr == first && e.pool.primPtr != first)
		v.Assert("C31.failover.stuck_primary_asked_to_reconnect", len(prim.reconCh) == 1)
	default:
		v.Assert("C31.drop.only_when_both_full", errors.Is(err, errWouldBlock))
		v.Assert("C31.drop.bytes_reported_by_the_sender_that_has_an_upstream", e.pool.primary.wouldBlockBytes.Load() == 3 && e.pool.secondary.wouldBlockBytes.Load() == 0)
		v.Assert("C31.drop.buffers_untouched", prim.buf.wi == pw && sec.buf.wi == sw)
	}
	// the same through the public entry point: counters
	e2 := &Egress{}
	p2, s2 := mk(pf), mk(sf)
	e2.pool = &tcpPool{primary: p2, secondary: s2, closed: make(chan struct{})}
	e2.pool.primPtr = &e2.pool.primary
	e2.pool.secPtr = &e2.pool.secondary
	e2.WritePacketLocked([]byte{1, 2, 3})
	st := e2.Stats()
	if pf && sf {
		v.Assert("C31.drop.counted", st.DroppedPackets == 1 && st.ForwardedPackets == 0)
	} else {
		v.Assert("C31.forward.counted", st.DroppedPackets == 0 && st.ForwardedPackets == 1)
	}
	v.Reach("C31.failover.end")
}

// The sender's pop with write failures: 3 packets are accepted, then up to 5 pops run against a writer
// model that, like net.Buffers.WriteTo on a broken connection, writes an arbitrary number k of the
// offered packets completely, and when k is not all of them fails inside packet k (which is
// deliberately not resent: "len(bufs) - 1"). Whatever the sequence of failures - several in one batch
// included - every offer starts exactly at the packet after the last one written or broken: no packet
// is offered twice, none is skipped, order is kept, and each packet ends up either written whole once
// or broken by a failure.
func Harness_C31_pop_retry() {
	v.NativeQuiesce = 1500 * time.Millisecond
	b := c31NewBuffer()
	const n = 3
	for k := 0; k < n; k++ {
		_, ok := b.push([]byte{byte(k)})
		v.Assert("C31.pop.push_accepted", ok)
	}
	next := 0 // id of the packet the next offer must start with
	whole, broken := 0, 0
	fails := 0
	errBroken := errors.New("c31: connection broke")
	for pops := 0; pops < 5 && next < n; pops++ {
		_ = b.pop(func(pkts [][]byte) (int, error) {
			v.Assert("C31.pop.offer_starts_after_last_written_or_broken_packet", len(pkts) > 0 && int(pkts[0][0]) == next)
			for i := range pkts {
				v.Assert("C31.pop.offer_is_in_order_without_gaps", int(pkts[i][0]) == next+i)
			}
			k := v.Choice(len(pkts) + 1)
			whole += k
			next += k
			if k == len(pkts) {
				return -1, nil // all written: WriteTo leaves no buffers
			}
			broken++
			next++
			fails++
			return len(pkts) - k - 1, errBroken
		})
	}
	if next >= n {
		v.Assert("C31.pop.every_packet_written_whole_once_or_broken", whole+broken == n && next == n)
		v.Reach("C31.pop.all_handled")
	}
	if fails >= 2 {
		v.Reach("C31.pop.two_failures")
	}
	v.Quiesce()
}

// The drop report the sender injects into the stream (encodeClientWriteErrPacket) is framed like every
// forwarded packet: a 4-byte little-endian length equal to the number of bytes that follow, and those
// bytes are a TL statshouse.addMetricsBatch carrying the dropped byte count - for a count from
// {1, 4096, 1000000} and a 0..8-byte leftover in the scratch buffer.
func Harness_C31_drop_report_frame() {
	s := &tcpSender{}
	m := s.getWriteErrM()
	dropped := []float64{1, 4096, 1_000_000}[v.Choice(3)]
	scratch := make([]byte, pktHeadLen, 64)
	extra := v.Choice(9)
	for i := 0; i < extra; i++ {
		scratch = append(scratch, 0xee)
	}
	pkt := encodeClientWriteErrPacket(dropped, m, scratch)
	v.Assert("C31.report.has_length_header", len(pkt) > pktHeadLen)
	n := int(uint32(pkt[0]) | uint32(pkt[1])<<8 | uint32(pkt[2])<<16 | uint32(pkt[3])<<24)
	v.Assert("C31.report.length_header_counts_the_bytes_that_follow", n == len(pkt)-pktHeadLen)
	var batch tlstatshouse.AddMetricsBatch
	rest, err := batch.ReadTL1Boxed(pkt[pktHeadLen:])
	v.Assert("C31.report.body_is_one_metrics_batch", err == nil && len(rest) == 0 && len(batch.Metrics) == 1)
	if err == nil && len(batch.Metrics) == 1 {
		v.Assert("C31.report.carries_the_dropped_byte_count", len(batch.Metrics[0].Value) == 1 && batch.Metrics[0].Value[0] == dropped)
	}
	v.Reach("C31.report.end")
}
