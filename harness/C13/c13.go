//go:build verif

package receiver

import (
	"github.com/VKCOM/statshouse/internal/data_model/gen2/tlstatshouse"
	v "github.com/VKCOM/statshouse/internal/zzverif"
)

// A MessagePack batch whose "metrics" array header announces n elements (array16 form, n an
// arbitrary byte) followed by 0..1 arbitrary bytes: decoding returns metrics or an error and
// never panics; a successful decode cannot yield more elements than bytes were supplied.
func Harness_C13_msgpack_batch_count() {
	buf := []byte{0x81, 0xa7, 'm', 'e', 't', 'r', 'i', 'c', 's', 0xdc, 0x00}
	buf = append(buf, v.NondetU8())
	buf = append(buf, v.NondetBytes(v.Choice(2))...)
	var mb tlstatshouse.AddMetricsBatchBytes
	rest, err := msgpackUnmarshalStatshouseAddMetricBatch(&mb, buf)
	if err == nil {
		v.Assert("C13.msgpack.batch.consumed", len(rest) <= len(buf))
		v.Assert("C13.msgpack.batch.count_fits", len(mb.Metrics) <= len(buf))
	}
	v.Reach("C13.msgpack.batch.end")
}

// Same for the per-metric collections: tags (map16), values, unique, histogram (array16).
func Harness_C13_msgpack_metric_counts() {
	var buf []byte
	which := v.Choice(4)
	switch which {
	case 0:
		buf = []byte{0x81, 0xa4, 't', 'a', 'g', 's', 0xde, 0x00}
	case 1:
		buf = []byte{0x81, 0xa5, 'v', 'a', 'l', 'u', 'e', 0xdc, 0x00}
	case 2:
		buf = []byte{0x81, 0xa6, 'u', 'n', 'i', 'q', 'u', 'e', 0xdc, 0x00}
	case 3:
		buf = []byte{0x81, 0xa9, 'h', 'i', 's', 't', 'o', 'g', 'r', 'a', 'm', 0xdc, 0x00}
	}
	buf = append(buf, v.NondetU8())
	buf = append(buf, v.NondetBytes(v.Choice(2))...)
	var m tlstatshouse.MetricBytes
	_, err := msgpackUnmarshalStatshouseMetric(&m, buf)
	if err == nil {
		v.Assert("C13.msgpack.metric.counts_fit", len(m.Tags) <= len(buf) && len(m.Value) <= len(buf) && len(m.Unique) <= len(buf) && len(m.Histogram) <= len(buf))
	}
	v.Reach("C13.msgpack.metric.end")
}

// c13Huge: 24 announced counts >= 2^31 (array32 / map32 headers).
func c13Huge() []byte {
	b0 := []byte{0x80, 0xc0, 0xff}[v.Choice(3)]
	b := []byte{b0, 0, 0, 0}
	for k := 1; k < 4; k++ {
		if v.Choice(2) == 1 {
			b[k] = 0xff
		}
	}
	return b
}

// A packet of at most 16 bytes that announces >= 2^31 metrics (resp. tags) must be answered
// with a parse error: allocating for the announced count (hundreds of GB) kills the process
// with "fatal error: out of memory", which is neither metrics nor a parse error.
func Harness_C13_msgpack_batch_huge_count() {
	buf := []byte{0x81, 0xa7, 'm', 'e', 't', 'r', 'i', 'c', 's', 0xdd}
	buf = append(buf, c13Huge()...)
	buf = append(buf, v.NondetBytes(v.Choice(3))...)
	var mb tlstatshouse.AddMetricsBatchBytes
	_, err := msgpackUnmarshalStatshouseAddMetricBatch(&mb, buf)
	v.Assert("C13.msgpack.batch.huge_count_is_error", err != nil)
	v.Reach("C13.msgpack.batch_huge.end")
}

func Harness_C13_msgpack_tags_huge_count() {
	buf := []byte{0x81, 0xa4, 't', 'a', 'g', 's', 0xdf}
	buf = append(buf, c13Huge()...)
	buf = append(buf, v.NondetBytes(v.Choice(3))...)
	var m tlstatshouse.MetricBytes
	_, err := msgpackUnmarshalStatshouseMetric(&m, buf)
	v.Assert("C13.msgpack.tags.huge_count_is_error", err != nil)
	v.Reach("C13.msgpack.tags_huge.end")
}
