//go:build verif

package receiver

import (
	"bytes"
	"math"

	"github.com/VKCOM/statshouse/internal/data_model/gen2/tlstatshouse"
	v "github.com/VKCOM/statshouse/internal/zzverif"
)

// A MessagePack batch whose "metrics" array header announces n elements (array16 form, n an
// arbitrary byte) followed by 0..1 arbitrary bytes: decoding returns metrics or an error and
// never panics; a successful decode cannot yield more elements than bytes were supplied.
func Harness_C13_msgpack_batch_count() {
	buf := []byte{0x81, 0xa7, 'm', 'e', 't', 'r', 'i', 'c', 's', 0xdc, 0x00}
	buf = append(buf, v.NondetU8())
	buf = append(buf, v.NondetBytes(v.Choice(2))...)
	var mb tlstatshouse.AddMetricsBatchBytes
	rest, err := msgpackUnmarshalStatshouseAddMetricBatch(&mb, buf)
	if err == nil {
		v.Assert("C13.msgpack.batch.consumed", len(rest) <= len(buf))
		v.Assert("C13.msgpack.batch.count_fits", len(mb.Metrics) <= len(buf))
	}
	v.Reach("C13.msgpack.batch.end")
}

// Same for the per-metric collections: tags (map16), values, unique, histogram (array16).
func Harness_C13_msgpack_metric_counts() {
	var buf []byte
	which := v.Choice(4)
	switch which {
	case 0:
		buf = []byte{0x81, 0xa4, 't', 'a', 'g', 's', 0xde, 0x00}
	case 1:
		buf = []byte{0x81, 0xa5, 'v', 'a', 'l', 'u', 'e', 0xdc, 0x00}
	case 2:
		buf = []byte{0x81, 0xa6, 'u', 'n', 'i', 'q', 'u', 'e', 0xdc, 0x00}
	case 3:
		buf = []byte{0x81, 0xa9, 'h', 'i', 's', 't', 'o', 'g', 'r', 'a', 'm', 0xdc, 0x00}
	}
	buf = append(buf, v.NondetU8())
	buf = append(buf, v.NondetBytes(v.Choice(2))...)
	var m tlstatshouse.MetricBytes
	_, err := msgpackUnmarshalStatshouseMetric(&m, buf)
	if err == nil {
		v.Assert("C13.msgpack.metric.counts_fit", len(m.Tags) <= len(buf) && len(m.Value) <= len(buf) && len(m.Unique) <= len(buf) && len(m.Histogram) <= len(buf))
	}
	v.Reach("C13.msgpack.metric.end")
}

// c13Huge: 24 announced counts >= 2^31 (array32 / map32 headers).
func c13Huge() []byte {
	b0 := []byte{0x80, 0xc0, 0xff}[v.Choice(3)]
	b := []byte{b0, 0, 0, 0}
	for k := 1; k < 4; k++ {
		if v.Choice(2) == 1 {
			b[k] = 0xff
		}
	}
	return b
}

// A packet of at most 16 bytes that announces >= 2^31 metrics (resp. tags) must be answered
// with a parse error: allocating for the announced count (hundreds of GB) kills the process
// with "fatal error: out of memory", which is neither metrics nor a parse error.
func Harness_C13_msgpack_batch_huge_count() {
	buf := []byte{0x81, 0xa7, 'm', 'e', 't', 'r', 'i', 'c', 's', 0xdd}
	buf = append(buf, c13Huge()...)
	buf = append(buf, v.NondetBytes(v.Choice(3))...)
	var mb tlstatshouse.AddMetricsBatchBytes
	_, err := msgpackUnmarshalStatshouseAddMetricBatch(&mb, buf)
	v.Assert("C13.msgpack.batch.huge_count_is_error", err != nil)
	v.Reach("C13.msgpack.batch_huge.end")
}

func Harness_C13_msgpack_tags_huge_count() {
	buf := []byte{0x81, 0xa4, 't', 'a', 'g', 's', 0xdf}
	buf = append(buf, c13Huge()...)
	buf = append(buf, v.NondetBytes(v.Choice(3))...)
	var m tlstatshouse.MetricBytes
	_, err := msgpackUnmarshalStatshouseMetric(&m, buf)
	v.Assert("C13.msgpack.tags.huge_count_is_error", err != nil)
	v.Reach("C13.msgpack.tags_huge.end")
}

func c13SameMetric(a, b *tlstatshouse.MetricBytes) bool {
	same := a.FieldsMask == b.FieldsMask && bytes.Equal(a.Name, b.Name) && len(a.Tags) == len(b.Tags) &&
		len(a.Value) == len(b.Value) && len(a.Unique) == len(b.Unique) && len(a.Histogram) == len(b.Histogram)
	if !same {
		return false
	}
	ok := true
	for i := range a.Tags {
		ok = v.And(ok, v.And(bytes.Equal(a.Tags[i].Key, b.Tags[i].Key), bytes.Equal(a.Tags[i].Value, b.Tags[i].Value)))
	}
	if a.IsSetCounter() {
		ok = v.And(ok, math.Float64bits(a.Counter) == math.Float64bits(b.Counter))
	}
	if a.IsSetTs() {
		ok = v.And(ok, a.Ts == b.Ts)
	}
	for i := range a.Value {
		ok = v.And(ok, math.Float64bits(a.Value[i]) == math.Float64bits(b.Value[i]))
	}
	for i := range a.Unique {
		ok = v.And(ok, a.Unique[i] == b.Unique[i])
	}
	for i := range a.Histogram {
		ok = v.And(ok, v.And(math.Float64bits(a.Histogram[i][0]) == math.Float64bits(b.Histogram[i][0]), math.Float64bits(a.Histogram[i][1]) == math.Float64bits(b.Histogram[i][1])))
	}
	return ok
}

// A protobuf metric message of 0..5 arbitrary bytes, and one whose single tag map entry is 0..4
// arbitrary bytes, decoded into a fresh metric object and into one that already decoded another
// metric (name, two tags, counter, timestamp, a value - the receivers reuse one batch object for every
// packet): same verdict (error or not) and, when accepted, the same metric field by field. What the
// decoder returns depends on the packet only, never on what the reused object held before.
func c13ProtoReuse(msg []byte) {
	old := []byte{
		0x0a, 3, 'o', 'l', 'd', // name
		0x12, 6, 0x0a, 1, 'k', 0x12, 1, 'v', // tag k=v
		0x12, 8, 0x0a, 2, 'e', 'n', 0x12, 2, 'p', 'r', // tag en=pr
		0x19, 0, 0, 0, 0, 0, 0, 0x14, 0x40, // counter 5
		0x20, 7, // ts
		0x29, 0, 0, 0, 0, 0, 0, 0xf0, 0x3f, // value 1
	}
	var dirty, fresh tlstatshouse.MetricBytes
	_, err0 := protobufUnmarshalStatshouseMetric(old, &dirty)
	v.Assert("C13.proto.reuse.prior_packet_decodes", err0 == nil && len(dirty.Tags) == 2)
	_, errF := protobufUnmarshalStatshouseMetric(append([]byte(nil), msg...), &fresh)
	_, errD := protobufUnmarshalStatshouseMetric(append([]byte(nil), msg...), &dirty)
	v.Assert("C13.proto.reuse.same_verdict", (errF == nil) == (errD == nil))
	if errF == nil && errD == nil {
		v.Assert("C13.proto.reuse.same_metric", c13SameMetric(&fresh, &dirty))
		v.Reach("C13.proto.reuse.accepted")
	}
}

func Harness_C13_protobuf_reuse_metric() {
	n := v.Choice(5)
	c13ProtoReuse(v.NondetBytes(n))
}

func Harness_C13_protobuf_reuse_metric_5bytes() {
	c13ProtoReuse(v.NondetBytes(5))
}

func Harness_C13_protobuf_reuse_tag_entry() {
	n := v.Choice(5)
	entry := v.NondetBytes(n)
	msg := append([]byte{0x12, byte(n)}, entry...)
	c13ProtoReuse(msg)
}

// The protobuf "value" field (5) arriving in 1..3 records, each a packed chunk of 1..2 doubles or a
// single unpacked fixed64 (all legal protobuf for a repeated double), arbitrary bit patterns: the
// decoded value list is the concatenation of all records in wire order - what the TL, JSON and
// MessagePack forms of the same batch carry.
func Harness_C13_protobuf_value_records() {
	var msg []byte
	var want []uint64
	n := 1 + v.Choice(3)
	for r := 0; r < n; r++ {
		k := v.Choice(3) // 0: unpacked single, 1: packed x1, 2: packed x2
		cnt := k
		if k == 0 {
			cnt = 1
			msg = append(msg, 0x29)
		} else {
			msg = append(msg, 0x2a, byte(8*k))
		}
		for j := 0; j < cnt; j++ {
			x := v.NondetU64()
			want = append(want, x)
			for b := 0; b < 8; b++ {
				msg = append(msg, byte(x>>(8*b)))
			}
		}
	}
	var m tlstatshouse.MetricBytes
	_, err := protobufUnmarshalStatshouseMetric(msg, &m)
	v.Assert("C13.proto.values.decodes", err == nil && m.IsSetValue())
	v.Assert("C13.proto.values.count_is_sum_of_records", len(m.Value) == len(want))
	if len(m.Value) == len(want) {
		same := true
		for i := range want {
			same = v.And(same, math.Float64bits(m.Value[i]) == want[i])
		}
		v.Assert("C13.proto.values.concatenation_in_wire_order", same)
	}
	v.Reach("C13.proto.values.end")
}

// The tightest valid collection: a "unique" array of 0..3 one-byte integers (positive fixints 0..127)
// that is the last thing in the packet, so the announced count equals the number of remaining bytes.
// The count guard must not reject it: the metric decodes and carries exactly those values (as the
// JSON, TL and Protobuf forms of the same metric do).
func Harness_C13_msgpack_unique_tight() {
	n := v.Choice(4)
	buf := []byte{0x81, 0xa6, 'u', 'n', 'i', 'q', 'u', 'e', 0x90 | byte(n)}
	var want []int64
	for i := 0; i < n; i++ {
		b := v.NondetU8()
		v.Assume(b < 0x80)
		buf = append(buf, b)
		want = append(want, int64(b))
	}
	var m tlstatshouse.MetricBytes
	_, err := msgpackUnmarshalStatshouseMetric(&m, buf)
	v.Assert("C13.msgpack.unique_tight.decodes", err == nil)
	if err == nil {
		same := len(m.Unique) == n
		for i := 0; same && i < n; i++ {
			same = v.And(same, m.Unique[i] == want[i])
		}
		v.Assert("C13.msgpack.unique_tight.values", same)
	}
	v.Reach("C13.msgpack.unique_tight.end")
}
