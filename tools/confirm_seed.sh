#!/bin/bash
# usage: confirm_seed.sh <worktree> : confirm demo fails with patch, passes without; package tests pass with patch
wt="$1"; cd "$wt" || exit 2
export GOFLAGS=-mod=mod GOPROXY=off GOTOOLCHAIN=auto; unset GOSUMDB
pkg=$(python3 -c "import json;print(json.load(open('SEED/meta.json'))['package'])")
pkg=${pkg#./}
git checkout -q -- . ; git clean -fdq -e SEED
cp SEED/zz_seed_demo_test.go "$pkg/zz_seed_demo_test.go"
echo "== without patch (want PASS)"; go test -vet=off -count=1 -run 'TestSeedDemo' "./$pkg/" 2>&1 | tail -3
git apply SEED/patch.diff || { echo "patch does not apply"; exit 1; }
echo "== with patch (want FAIL)"; go test -vet=off -count=1 -run 'TestSeedDemo' "./$pkg/" 2>&1 | tail -5
rm "$pkg/zz_seed_demo_test.go"
echo "== package tests with patch (want ok)"; go test -vet=off -count=1 "./$pkg/" 2>&1 | tail -3
