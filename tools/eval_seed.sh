#!/bin/bash
# usage: eval_seed.sh <prop> <n> [tier] [keep]: confirm the agent's seed in its worktree, archive it under seeded/,
# run the check against the worktree (VERIF_REPO, /repo untouched), drop the worktree unless "keep"
p="$1"; n="$2"; wt=/tmp/seed-$p-$n; out=/verif/seeded/$p-$n
{
echo "##### $p-$n"
/verif/tools/confirm_seed.sh $wt
mkdir -p $out && cp $wt/SEED/* $out/
cat $out/patch.diff
cd /verif && VERIF_REPO=$wt timeout 3000 ./check.sh $p ${3:-quick} 2>&1 | tail -25
echo "check exit: ${PIPESTATUS[0]}"
[ "$4" = keep ] || git -C /repo worktree remove --force $wt
} > /tmp/eval-$p-$n.log 2>&1
