#!/bin/bash
# usage: try_seed.sh <seeded/X dir> <property> [tier] [extra gosx args]
# runs a check against a scratch worktree of /repo with the archived seeded patch applied; /repo itself is untouched
sd="$(realpath $1)"; id="$2"; tier="${3:-quick}"; shift 3
wt=/tmp/try-$(basename $sd)-$$
git -C /repo worktree add -f --detach $wt HEAD >/dev/null 2>&1 || exit 2
trap 'git -C /repo worktree remove --force '$wt EXIT
git -C $wt apply "$sd/patch.diff" || { echo "patch does not apply"; exit 2; }
cd /verif && VERIF_REPO=$wt timeout 3000 ./check.sh "$id" "$tier" "$@" 2>&1 | tail -${TAILN:-25}
echo "check exit: ${PIPESTATUS[0]}"
