#!/usr/bin/env python3
"""prints the sub-agent prompt for a seeded change against one property (property text only, nothing from /verif's machinery)"""
import json,sys
pid=sys.argv[1]; n=sys.argv[2] if len(sys.argv)>2 else 'a'
wt='/tmp/seed-%s-%s'%(pid,n)
extra=sys.argv[3] if len(sys.argv)>3 else ''
for l in open('/verif/properties.jsonl'):
    d=json.loads(l)
    if d['id']==pid: break
print(f"""You are helping test a verification tool for the Go project VKCOM/statshouse. Your job: craft ONE realistic code change (a plausible regression a developer could make - a refactor slip, an off-by-one, a dropped condition, a wrong variable, a reordered pair of statements, a missed case) that BREAKS the semantic property below, while the project still compiles and its existing tests in the touched packages still pass.

Work ONLY inside the git worktree {wt} (a checkout of the repository). Do NOT read or touch /repo or /verif or anything else outside {wt} (except Go's own caches). Do not commit.

PROPERTY {d['id']}: {d['title']}
{d['statement']}
Code anchors: {json.dumps(d['anchors'])}

Requirements for the change:
- It must need something SPECIFIC to manifest: an unusual input value, a boundary, a particular multi-step sequence of operations, a particular interleaving/crash point, or two cooperating sites that each look fine alone. NOT something ordinary use or any basic test would expose at once.
- Keep it small (1-15 changed lines), in non-test, non-generated production code under the anchored files (or code they call). Do not touch *_test.go files in the patch. It must look like a plausible mistake, not sabotage; no special-casing of magic constants.
- The package(s) you touch must still build and their existing tests must still pass with the change: run e.g. `cd {wt} && GOFLAGS=-mod=mod GOPROXY=off GOTOOLCHAIN=auto go test -vet=off -count=1 ./internal/<pkg>/...` (never set GOSUMDB; no network is available; some packages that need sqlite cgo do not link in this sandbox - ignore those).
- Write a demonstration: a NEW Go test file (name it zz_seed_demo_test.go, in the package of the changed code, so it may call unexported functions) with a test `TestSeedDemo` that FAILS with your change and PASSES on the original code. Verify both directions yourself (use `git stash` / `git diff > patch; git checkout` to flip). The demo must be deterministic.
{extra}
Deliver, inside {wt}:
- {wt}/SEED/patch.diff : `git diff` of the production change only (no test file), applicable with `git apply` from the repo root
- {wt}/SEED/zz_seed_demo_test.go : copy of the demo test, plus a line at the top as a comment giving the package dir it belongs to
- {wt}/SEED/meta.json : {{"property": "{d['id']}", "package": "<dir of demo test>", "files_changed": [...], "what": "<one paragraph: what was changed and why it breaks the property>", "needs": "<what specific input/sequence/interleaving is needed to manifest>", "ran": "<commands you ran and their outcomes, both directions>"}}
Leave the worktree with the patch APPLIED and the demo test in place. In your final answer, summarize the change in 5 lines.""")
