#!/usr/bin/env python3
"""Regenerates the generated parts of DESIGN.md (between the GENERATED markers):
section 11.2 (registered checks, from checks/*.json and evidence/*.json) and
section 11.5 (seeded changes, from seeded/*/meta.json and seeded/RESULTS.json)."""
import json, os, glob, re

V = '/verif'


def checks_table():
    out = []
    for f in sorted(glob.glob(V + '/checks/C*.json')):
        c = json.load(open(f))
        pid = c['property']
        ev = {}
        try:
            e = json.load(open(V + '/evidence/%s.json' % pid))
            for h in e.get('coverage', {}).get('harnesses', []) if isinstance(e.get('coverage'), dict) else []:
                ev[h.get('fn') or h.get('harness')] = h
        except Exception:
            pass
        out.append('#### %s\n' % pid)
        for g in c['groups']:
            out.append('package `%s` (%s)\n' % (g['pkg'], ', '.join('`%s`' % x for x in g['files'])))
            for h in g['harnesses']:
                cfg = h.get('config', {})
                b = []
                for k in ('unwind', 'max_paths', 'time_budget_s', 'max_switches', 'max_goroutines'):
                    if k in cfg:
                        b.append('%s=%s' % (k, cfg[k]))
                stubs = cfg.get('stubs', {})
                if stubs:
                    kinds = {}
                    for k, v in stubs.items():
                        kind = v.split(':')[0]
                        kinds[kind] = kinds.get(kind, 0) + 1
                    b.append('stubs: ' + ', '.join('%d %s' % (n, k) for k, n in sorted(kinds.items())))
                if h.get('native_replay') is False:
                    b.append('interpreter-only confirmation')
                if h.get('schedule_dependent'):
                    b.append('schedule-dependent')
                out.append('* **%s** (%s%s) - %s' % (h['fn'], h['tier'], ('; ' + '; '.join(b)) if b else '', h['what']))
            out.append('')
        oc = c.get('outside_claim', [])
        if oc:
            out.append('Outside the claim: ' + ' | '.join(oc) + '\n')
    return '\n'.join(out)


def seeded_table():
    res = json.load(open(V + '/seeded/RESULTS.json'))
    rows = ['| seeded change | property | what was changed (sub-agent, from the property text alone) | result | deciding harness / assertion |', '|---|---|---|---|---|']
    for d in sorted(os.listdir(V + '/seeded')):
        mp = V + '/seeded/%s/meta.json' % d
        if not os.path.exists(mp):
            continue
        m = json.load(open(mp))
        r = res.get(d, {})
        what = re.sub(r'\s+', ' ', m.get('what', ''))[:230].replace('|', '/')
        rows.append('| %s | %s | %s | %s | %s |' % (d, m.get('property', ''), what, r.get('result', '?'), r.get('by', '').replace('|', '/')))
    return '\n'.join(rows)


def splice(s, name, body):
    a, b = '<!-- GENERATED:%s:BEGIN -->' % name, '<!-- GENERATED:%s:END -->' % name
    i, j = s.index(a), s.index(b)
    return s[:i + len(a)] + '\n' + body + '\n' + s[j:]


if __name__ == '__main__':
    p = V + '/DESIGN.md'
    s = open(p).read()
    s = splice(s, 'CHECKS', checks_table())
    s = splice(s, 'SEEDED', seeded_table())
    open(p, 'w').write(s)
