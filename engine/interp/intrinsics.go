package interp

// Engine-implemented functions: the harness support package, body-less runtime/asm
// functions, and a few stdlib entry points that need reflection.

import (
	"fmt"
	"go/token"
	"go/types"
	"math"
	"math/big"
	"math/bits"
	"strings"

	"golang.org/x/tools/go/ssa"

	"verif/gosx/smt"
)

type intrinsicFn func(fr *frame, args []value) value

var intrinsics = map[string]intrinsicFn{}

const zz = "github.com/VKCOM/statshouse/internal/zzverif."

func (i *Interp) nondet(kind string, k types.BasicKind, name string) value {
	var s smt.Sort
	if k == types.Bool {
		s = smt.Bool
	} else {
		s = smt.BV(kindWidth(k))
	}
	v := i.freshVar(kind, s)
	i.path.nondets = append(i.path.nondets, nondetVar{Name: name, Kind: kind, t: v})
	return sym{t: v, k: k}
}

func (i *Interp) nondetRange(k types.BasicKind, lo, hi *big.Int, kind string) value {
	if lo.Cmp(hi) > 0 {
		panic(pathAbort{"assume-end", "empty nondet range"})
	}
	v := i.freshVar(kind, smt.Int)
	i.path.nondets = append(i.path.nondets, nondetVar{Kind: kind, t: v})
	c := i.ctx
	i.assume(c.And(c.ILe(c.IntConst(lo), v), c.ILe(v, c.IntConst(hi))))
	return i.norm(sym{t: v, k: k, lo: lo, hi: hi})
}

func bigOf(v value) *big.Int {
	k := kindOfValue(v)
	if kindSigned(k) {
		return big.NewInt(asInt64(v))
	}
	return new(big.Int).SetUint64(rawBits(v))
}

func init() {
	nd := func(kind string, k types.BasicKind) intrinsicFn {
		return func(fr *frame, args []value) value { return fr.i.nondet(kind, k, "") }
	}
	for name, f := range map[string]intrinsicFn{
		zz + "NondetBool": nd("bool", types.Bool),
		zz + "NondetU8":   nd("u8", types.Uint8),
		zz + "NondetU16":  nd("u16", types.Uint16),
		zz + "NondetU32":  nd("u32", types.Uint32),
		zz + "NondetU64":  nd("u64", types.Uint64),
		zz + "NondetI8":   nd("i8", types.Int8),
		zz + "NondetI16":  nd("i16", types.Int16),
		zz + "NondetI32":  nd("i32", types.Int32),
		zz + "NondetI64":  nd("i64", types.Int64),
		zz + "NondetInt":  nd("int", types.Int),
		zz + "NondetF64": func(fr *frame, args []value) value {
			s := fr.i.nondet("f64", types.Uint64, "").(sym)
			return sym{t: s.t, k: types.Float64}
		},
		zz + "NondetF32": func(fr *frame, args []value) value {
			s := fr.i.nondet("f32", types.Uint32, "").(sym)
			return sym{t: s.t, k: types.Float32}
		},
		zz + "NondetIntRange": func(fr *frame, args []value) value {
			return fr.i.nondetRange(types.Int64, bigOf(args[0]), bigOf(args[1]), "irange")
		},
		zz + "NondetI32Range": func(fr *frame, args []value) value {
			return fr.i.nondetRange(types.Int32, bigOf(args[0]), bigOf(args[1]), "irange")
		},
		zz + "NondetU32Range": func(fr *frame, args []value) value {
			return fr.i.nondetRange(types.Uint32, bigOf(args[0]), bigOf(args[1]), "irange")
		},
		zz + "NondetU64Range": func(fr *frame, args []value) value {
			return fr.i.nondetRange(types.Uint64, bigOf(args[0]), bigOf(args[1]), "irange")
		},
		zz + "NondetFloatInt": func(fr *frame, args []value) value {
			return fr.i.nondetRange(types.Float64, bigOf(args[0]), bigOf(args[1]), "fint")
		},
		zz + "Choice": func(fr *frame, args []value) value {
			return fr.i.choose(int(asInt64(args[0])), "Choice")
		},
		zz + "Assume": func(fr *frame, args []value) value {
			fr.i.assumeProp(args[0])
			return nil
		},
		zz + "Assert": func(fr *frame, args []value) value {
			fr.i.assertProp(args[0].(string), args[1])
			return nil
		},
		zz + "Reach": func(fr *frame, args []value) value {
			fr.i.reach(args[0].(string))
			return nil
		},
		zz + "Observe": func(fr *frame, args []value) value {
			return nil
		},
		zz + "KnownShape": func(fr *frame, args []value) value {
			id := args[0].(string)
			in := fr.i.decideValue(args[1])
			if in && KnownShapes[id] {
				fr.i.path.known = id
			}
			return in
		},
		zz + "And": func(fr *frame, args []value) value {
			return fr.i.mkBool(fr.i.ctx.And(fr.i.boolTerm(args[0]), fr.i.boolTerm(args[1])))
		},
		zz + "Or": func(fr *frame, args []value) value {
			return fr.i.mkBool(fr.i.ctx.Or(fr.i.boolTerm(args[0]), fr.i.boolTerm(args[1])))
		},
		zz + "Implies": func(fr *frame, args []value) value {
			return fr.i.mkBool(fr.i.ctx.Or(fr.i.ctx.Not(fr.i.boolTerm(args[0])), fr.i.boolTerm(args[1])))
		},
		zz + "Not": func(fr *frame, args []value) value {
			return fr.i.mkBool(fr.i.ctx.Not(fr.i.boolTerm(args[0])))
		},
		zz + "B2I": func(fr *frame, args []value) value {
			if b, ok := args[0].(bool); ok {
				if b {
					return int(1)
				}
				return int(0)
			}
			r, ok := fr.i.iteValue(fr.i.boolTerm(args[0]), int(1), int(0))
			if !ok {
				panic(fr.i.unsupported("B2I"))
			}
			return r
		},
		zz + "Quiesce": func(fr *frame, args []value) value {
			fr.i.quiesceNow(fr)
			return nil
		},
		zz + "GoroutinesBlocked": func(fr *frame, args []value) value {
			n := 0
			if fr.i.sched != nil {
				for _, g := range fr.i.sched.gs {
					if g != fr.i.curG && !g.done {
						n++
					}
				}
			}
			return n
		},
		// ---- virtual timers ----
		"time.AfterFunc": func(fr *frame, args []value) value {
			d := asInt64(args[0])
			t := fr.i.afterFunc(d, args[1])
			// *time.Timer: a zero Timer object whose identity maps to the virtual timer
			var cell value = zero(deref(fr.fn.Signature.Results().At(0).Type()))
			p := &cell
			fr.i.timerOf[p] = t
			return p
		},
		"(*time.Timer).Stop": func(fr *frame, args []value) value {
			p, _ := args[0].(*value)
			t := fr.i.timerOf[p]
			if t == nil {
				panic(fr.i.unsupported("Stop on a timer not created by time.AfterFunc"))
			}
			was := !t.stopped && !t.fired
			t.stopped = true
			return was
		},
		zz + "IsSymbolic": func(fr *frame, args []value) value { return true },
		zz + "Reset":      func(fr *frame, args []value) value { return nil },

		// ---- pgregory.net/rand: every draw is an input (documented contract only) ----
		"pgregory.net/rand.New": func(fr *frame, args []value) value {
			var cell value = zero(deref(fr.fn.Signature.Results().At(0).Type()))
			return &cell
		},
		"(*pgregory.net/rand.Rand).Float64": func(fr *frame, args []value) value {
			// exactly what the generator returns: k / 2^53 with k in [0, 2^53), kept as a fixed-point
			// exact float so that products with powers of two and comparisons stay integer arithmetic
			fr.i.countDraw()
			i := fr.i
			hi := new(big.Int).Sub(pow2(53), big.NewInt(1))
			v := i.freshVar("f64", smt.Int)
			i.path.nondets = append(i.path.nondets, nondetVar{Name: "rand.Float64", Kind: "f64", t: v, fix: 53})
			c := i.ctx
			i.assume(c.And(c.ILe(c.IntConst64(0), v), c.ILe(v, c.IntConst(hi))))
			return sym{t: v, k: types.Float64, lo: big.NewInt(0), hi: hi, sc: 53}
		},
		"(*pgregory.net/rand.Rand).Float32": func(fr *frame, args []value) value {
			s := fr.i.nondet("f32", types.Uint32, "rand.Float32").(sym)
			x := sym{t: s.t, k: types.Float32}
			c := fr.i.ctx
			ft := fr.i.fpTerm(x)
			fr.i.assume(c.And(c.FPCmp("fp.leq", fr.i.fpTerm(float32(0)), ft), c.FPCmp("fp.lt", ft, fr.i.fpTerm(float32(1)))))
			return x
		},
		"(*pgregory.net/rand.Rand).Uint64":  func(fr *frame, args []value) value { return fr.i.nondet("u64", types.Uint64, "rand.Uint64") },
		"(*pgregory.net/rand.Rand).Uint32":  func(fr *frame, args []value) value { return fr.i.nondet("u32", types.Uint32, "rand.Uint32") },
		"(*pgregory.net/rand.Rand).Uint64n": func(fr *frame, args []value) value { return fr.i.randBelow(args[1], types.Uint64, "u64") },
		"(*pgregory.net/rand.Rand).Uint32n": func(fr *frame, args []value) value { return fr.i.randBelow(args[1], types.Uint32, "u32") },
		"(*pgregory.net/rand.Rand).next64": func(fr *frame, args []value) value {
			panic(fr.i.unsupported("raw pgregory.net/rand draw (next64)"))
		},
		"(*pgregory.net/rand.Rand).next32": func(fr *frame, args []value) value {
			panic(fr.i.unsupported("raw pgregory.net/rand draw (next32)"))
		},
		// ---- math ----
		"math.Float64bits": func(fr *frame, args []value) value {
			switch x := args[0].(type) {
			case float64:
				return math.Float64bits(x)
			case sym:
				return fr.i.mkBV(fr.i.bvTerm(x), types.Uint64)
			}
			panic("Float64bits")
		},
		"math.Float64frombits": func(fr *frame, args []value) value {
			switch x := args[0].(type) {
			case uint64:
				return math.Float64frombits(x)
			case sym:
				return sym{t: fr.i.bvTerm(x), k: types.Float64}
			}
			panic("Float64frombits")
		},
		"math.Float32bits": func(fr *frame, args []value) value {
			switch x := args[0].(type) {
			case float32:
				return math.Float32bits(x)
			case sym:
				return fr.i.mkBV(fr.i.bvTerm(x), types.Uint32)
			}
			panic("Float32bits")
		},
		"math.Float32frombits": func(fr *frame, args []value) value {
			switch x := args[0].(type) {
			case uint32:
				return math.Float32frombits(x)
			case sym:
				return sym{t: fr.i.bvTerm(x), k: types.Float32}
			}
			panic("Float32frombits")
		},
		"math.Floor": mathRound("RTN", math.Floor),
		"math.Ceil":  mathRound("RTP", math.Ceil),
		"math.Trunc": mathRound("RTZ", math.Trunc),
		"math.floor": mathRound("RTN", math.Floor),
		"math.ceil":  mathRound("RTP", math.Ceil),
		"math.trunc": mathRound("RTZ", math.Trunc),
		"math.Sqrt": func(fr *frame, args []value) value {
			if x, ok := args[0].(float64); ok {
				return math.Sqrt(x)
			}
			if fr.i.cfg.FloatUF {
				return sym{t: fr.i.ctx.UF("fsqrt", smt.FP64, fr.i.fpTerm(args[0])), k: types.Float64}
			}
			return sym{t: fr.i.ctx.FPArith("fp.sqrt", fr.i.fpTerm(args[0])), k: types.Float64}
		},
		"math.sqrt": func(fr *frame, args []value) value {
			if x, ok := args[0].(float64); ok {
				return math.Sqrt(x)
			}
			return sym{t: fr.i.ctx.FPArith("fp.sqrt", fr.i.fpTerm(args[0])), k: types.Float64}
		},
		"math.Abs": func(fr *frame, args []value) value {
			switch x := args[0].(type) {
			case float64:
				return math.Abs(x)
			case sym:
				if x.t.Sort.K == smt.KInt {
					c := fr.i.ctx
					m := bigMax(new(big.Int).Abs(x.lo), new(big.Int).Abs(x.hi))
					return sym{t: c.Ite(c.ILt(x.t, c.IntConst64(0)), c.INeg(x.t), x.t), k: x.k, lo: big.NewInt(0), hi: m, sc: x.sc}
				}
				if x.t.Sort.K == smt.KBV {
					return sym{t: fr.i.ctx.BVAnd(x.t, fr.i.ctx.BVConst(^uint64(0)>>1, 64)), k: x.k}
				}
				return sym{t: fr.i.ctx.FPUn("fp.abs", x.t), k: x.k}
			}
			panic("math.Abs")
		},
		"math.Min":     mathMinMax(true),
		"math.Max":     mathMinMax(false),
		"math.archMin": mathMinMax(true),
		"math.archMax": mathMinMax(false),
		"math.Log":   mathUF("flog", math.Log),
		"math.Log2":  mathUF("flog2", math.Log2),
		"math.Exp":   mathUF("fexp", math.Exp),
		"math.log":   mathUF("flog", math.Log),
		"math.archLog":   mathUF("flog", math.Log),
		"math.archExp":   mathUF("fexp", math.Exp),
		"math.Pow": func(fr *frame, args []value) value {
			x, ok1 := args[0].(float64)
			y, ok2 := args[1].(float64)
			if ok1 && ok2 {
				return math.Pow(x, y)
			}
			return sym{t: fr.i.ctx.UF("fpow", smt.FP64, fr.i.fpTerm(args[0]), fr.i.fpTerm(args[1])), k: types.Float64}
		},
		"math.archFloor": mathRound("RTN", math.Floor),
		"math.archCeil":  mathRound("RTP", math.Ceil),
		"math.archTrunc": mathRound("RTZ", math.Trunc),
		"math.archSqrt": func(fr *frame, args []value) value {
			if x, ok := args[0].(float64); ok {
				return math.Sqrt(x)
			}
			return sym{t: fr.i.ctx.FPArith("fp.sqrt", fr.i.fpTerm(args[0])), k: types.Float64}
		},
		"math.FMA": func(fr *frame, args []value) value {
			panic(fr.i.unsupported("math.FMA"))
		},

		// ---- runtime / misc ----
		"runtime.KeepAlive":    func(fr *frame, args []value) value { return nil },
		"runtime.GC":           func(fr *frame, args []value) value { return nil },
		"runtime.Gosched":      func(fr *frame, args []value) value { fr.i.yield(fr); return nil },
		"runtime.GOMAXPROCS":   func(fr *frame, args []value) value { return 16 },
		"runtime.NumCPU":       func(fr *frame, args []value) value { return 16 },
		"runtime.SetFinalizer": func(fr *frame, args []value) value { return nil },
		"internal/race.Acquire":  func(fr *frame, args []value) value { return nil },
		"internal/race.Release":  func(fr *frame, args []value) value { return nil },
		"internal/race.ReleaseMerge":  func(fr *frame, args []value) value { return nil },
		"internal/race.Disable":  func(fr *frame, args []value) value { return nil },
		"internal/race.Enable":   func(fr *frame, args []value) value { return nil },
		"internal/race.Read":   func(fr *frame, args []value) value { return nil },
		"internal/race.Write":   func(fr *frame, args []value) value { return nil },
		"internal/race.ReadRange":   func(fr *frame, args []value) value { return nil },
		"internal/race.WriteRange":   func(fr *frame, args []value) value { return nil },
		"os.Exit": func(fr *frame, args []value) value {
			panic(targetPanic{v: iface{t: fr.i.runtimeErrorString, v: "os.Exit called"}, fatal: true})
		},
		"time.Sleep": func(fr *frame, args []value) value { fr.i.sleep(fr, args[0]); return nil },
		"time.now": func(fr *frame, args []value) value {
			panic(fr.i.unsupported("time.now without a clock stub (stub time.Now in the check config)"))
		},
		"time.runtimeNano": func(fr *frame, args []value) value { return int64(1) },
		"time.runtimeNow":  func(fr *frame, args []value) value { return tuple{int64(1700000000), int32(0), int64(1)} },

		// ---- internal/bytealg (assembly) ----
		"internal/bytealg.IndexByte":       func(fr *frame, args []value) value { return fr.i.indexByte(args[0].([]value), args[1]) },
		"internal/bytealg.IndexByteString": func(fr *frame, args []value) value { return fr.i.indexByte(strBytes(args[0]), args[1]) },
		"internal/bytealg.Equal": func(fr *frame, args []value) value {
			a, b := args[0].([]value), args[1].([]value)
			return fr.i.mkBool(fr.i.bytesEq(a, b))
		},
		"internal/bytealg.Compare": func(fr *frame, args []value) value {
			return fr.i.bytesCompare(args[0].([]value), args[1].([]value))
		},
		"internal/bytealg.CompareString": func(fr *frame, args []value) value {
			return fr.i.bytesCompare(strBytes(args[0]), strBytes(args[1]))
		},
		"internal/bytealg.Count": func(fr *frame, args []value) value {
			return fr.i.countByte(args[0].([]value), args[1])
		},
		"internal/bytealg.CountString": func(fr *frame, args []value) value {
			return fr.i.countByte(strBytes(args[0]), args[1])
		},
		"internal/bytealg.MakeNoZero": func(fr *frame, args []value) value {
			n := int(fr.i.concreteInt(args[0], "MakeNoZero"))
			s := make([]value, n)
			for j := range s {
				s[j] = uint8(0)
			}
			return s
		},
		// unsafe []byte<->string casts of tinylib/msgp (purego.go states the meaning)
		"github.com/tinylib/msgp/msgp.UnsafeString": func(fr *frame, args []value) value {
			return fr.i.mkStr(args[0].([]value))
		},
		// go4.org/mem.B: zero-copy []byte -> RO{m: unsafeString} through a string header cast
		"internal/stringslite.Clone": func(fr *frame, args []value) value { return args[0] },
		"strings.Clone":              func(fr *frame, args []value) value { return args[0] },
		"go4.org/mem.B": func(fr *frame, args []value) value {
			b, _ := args[0].([]value)
			r := zero(fr.fn.Signature.Results().At(0).Type()).(structure) // RO{_ [0]func(); m unsafeString}
			r[len(r)-1] = fr.i.mkStr(b)
			return r
		},
		"github.com/mailru/easyjson/jlexer.bytesToStr": func(fr *frame, args []value) value {
			return fr.i.mkStr(args[0].([]value))
		},
		"github.com/tinylib/msgp/msgp.UnsafeBytes": func(fr *frame, args []value) value {
			return strBytes(args[0])
		},
		"internal/stringslite.Index": nil,
		"strings.Index":              nil,
		"bytes.Index":                nil,
		"internal/bytealg.Index": func(fr *frame, args []value) value {
			return fr.i.indexSeq(args[0].([]value), args[1].([]value))
		},
		"internal/bytealg.IndexString": func(fr *frame, args []value) value {
			return fr.i.indexSeq(strBytes(args[0]), strBytes(args[1]))
		},
		"internal/bytealg.Cutover": func(fr *frame, args []value) value { return 1 << 30 },
		"runtime.memequal":         nil,
		"internal/abi.NoEscape":    func(fr *frame, args []value) value { return args[0] },
		"internal/abi.Escape":      func(fr *frame, args []value) value { return args[0] },
		"strings.noescape":         func(fr *frame, args []value) value { return args[0] },
		"internal/godebug.New":     nil,
		"(*internal/godebug.Setting).Value": func(fr *frame, args []value) value { return "" },
		"(*internal/godebug.Setting).IncNonDefault": func(fr *frame, args []value) value { return nil },
		"internal/cpu.Initialize":  func(fr *frame, args []value) value { return nil },
		"runtime.fastrand":         nil,
		"errors.Is": func(fr *frame, args []value) value { return fr.i.errorsIs(fr, args[0].(iface), args[1].(iface), 0) },

		// ---- math/bits fast paths handled by source; these have pure Go bodies ----

		// ---- fmt (formatting is never the subject; opaque results) ----
		"fmt.Sprintf":  fmtSprintf,
		"fmt.Sprint":   fmtSprint,
		"fmt.Sprintln": fmtSprint,
		"fmt.Errorf":   fmtErrorf,
		"fmt.Printf":   func(fr *frame, args []value) value { return tuple{0, iface{}} },
		"fmt.Println":  func(fr *frame, args []value) value { return tuple{0, iface{}} },
		"fmt.Print":    func(fr *frame, args []value) value { return tuple{0, iface{}} },
		"fmt.Fprintf":  func(fr *frame, args []value) value { return tuple{0, iface{}} },
		"fmt.Fprintln": func(fr *frame, args []value) value { return tuple{0, iface{}} },
		"fmt.Fprint":   func(fr *frame, args []value) value { return tuple{0, iface{}} },
		"log.Printf":   func(fr *frame, args []value) value { return nil },
		"log.Println":  func(fr *frame, args []value) value { return nil },
		"log.Print":    func(fr *frame, args []value) value { return nil },
		"log.Fatalf": func(fr *frame, args []value) value {
			panic(targetPanic{v: iface{t: fr.i.runtimeErrorString, v: "log.Fatalf called"}, fatal: true})
		},
		"log.Panicf": func(fr *frame, args []value) value {
			panic(targetPanic{v: iface{t: types.Typ[types.String], v: "log.Panicf: " + fmtArgs(args)}})
		},
		"(*log.Logger).Printf":  func(fr *frame, args []value) value { return nil },
		"(*log.Logger).Println": func(fr *frame, args []value) value { return nil },

		// ---- sort.Slice & friends (need reflection natively) ----
		"sort.Slice":       sortSlice(false),
		"sort.SliceStable": sortSlice(true),
		"internal/reflectlite.Swapper": nil,
	} {
		if f != nil {
			intrinsics[name] = f
		}
	}
	registerSync()
}

func mathRound(mode string, conc func(float64) float64) intrinsicFn {
	return func(fr *frame, args []value) value {
		switch x := args[0].(type) {
		case float64:
			return conc(x)
		case sym:
			if x.t.Sort.K == smt.KInt {
				if x.sc > 0 {
					return fr.i.norm(fr.i.fixRound(x, mode))
				}
				return x
			}
			return sym{t: fr.i.ctx.FPRound(fr.i.fpTerm(x), mode), k: types.Float64}
		}
		panic("mathRound")
	}
}

func mathUF(name string, conc func(float64) float64) intrinsicFn {
	return func(fr *frame, args []value) value {
		if x, ok := args[0].(float64); ok {
			return conc(x)
		}
		return sym{t: fr.i.ctx.UF(name, smt.FP64, fr.i.fpTerm(args[0])), k: types.Float64}
	}
}

// ---- byte-sequence helpers ----

func (i *Interp) bytesEq(a, b []value) *smt.Term {
	if len(a) != len(b) {
		return i.ctx.F
	}
	r := i.ctx.T
	for j := range a {
		r = i.ctx.And(r, i.ctx.Eq(i.bvTerm(a[j]), i.bvTerm(b[j])))
		if r.IsFalse() {
			break
		}
	}
	return r
}

func (i *Interp) indexByte(b []value, c value) value {
	// first index with b[j]==c, else -1: decided sequentially (forks only on symbolic comparisons)
	for j := range b {
		if i.decide(i.ctx.Eq(i.bvTerm(b[j]), i.bvTerm(c))) {
			return j
		}
	}
	return -1
}

func (i *Interp) countByte(b []value, c value) value {
	n := 0
	for j := range b {
		if i.decide(i.ctx.Eq(i.bvTerm(b[j]), i.bvTerm(c))) {
			n++
		}
	}
	return n
}

func (i *Interp) indexSeq(a, sep []value) value {
	if len(sep) == 0 {
		return 0
	}
	for j := 0; j+len(sep) <= len(a); j++ {
		if i.decide(i.bytesEq(a[j:j+len(sep)], sep)) {
			return j
		}
	}
	return -1
}

func (i *Interp) bytesCompare(a, b []value) value {
	n := len(a)
	if len(b) < n {
		n = len(b)
	}
	for j := 0; j < n; j++ {
		x, y := i.bvTerm(a[j]), i.bvTerm(b[j])
		if i.decide(i.ctx.Eq(x, y)) {
			continue
		}
		if i.decide(i.ctx.BVUlt(x, y)) {
			return -1
		}
		return 1
	}
	switch {
	case len(a) < len(b):
		return -1
	case len(a) > len(b):
		return 1
	}
	return 0
}

// ---- fmt ----

func fmtArgs(args []value) string {
	var sb strings.Builder
	for _, a := range args {
		if hasSymDeep(a) {
			sb.WriteString("<symbolic>")
		} else {
			s := toString(a)
			if len(s) > 200 {
				s = s[:200]
			}
			sb.WriteString(s)
		}
		sb.WriteByte(' ')
	}
	return sb.String()
}

func hasSymDeep(v value) bool {
	switch v := v.(type) {
	case []value:
		for _, e := range v {
			if hasSymDeep(e) {
				return true
			}
		}
		return false
	}
	return hasSym(v)
}

func fmtSprintf(fr *frame, args []value) value {
	return "fmt<" + fmtArgs(args) + ">"
}
func fmtSprint(fr *frame, args []value) value { return "fmt<" + fmtArgs(args) + ">" }

// fmtErrorf returns a non-nil error whose Unwrap yields the %w operand (if any).
func fmtErrorf(fr *frame, args []value) value {
	i := fr.i
	format, _ := args[0].(string)
	var wrapped value = iface{}
	if strings.Contains(format, "%w") {
		if vs, ok := args[1].([]value); ok {
			for _, a := range vs {
				if it, ok := a.(iface); ok && it.t != nil {
					if types.Implements(it.t, errorIface()) {
						wrapped = it
					}
				}
			}
		}
	}
	p := i.prog.ImportedPackage("fmt")
	if p != nil {
		i.ex.buildPkg(p)
		if wt := p.Type("wrapError"); wt != nil {
			st := structure{"fmt<" + fmtArgs(args) + ">", wrapped}
			var cell value = st
			return iface{t: types.NewPointer(wt.Type()), v: &cell}
		}
	}
	panic(i.unsupported("fmt.Errorf without fmt package"))
}

var errIface *types.Interface

func errorIface() *types.Interface {
	if errIface == nil {
		errIface = types.Universe.Lookup("error").Type().Underlying().(*types.Interface)
	}
	return errIface
}

// ---- sort.Slice ----

func sortSlice(stable bool) intrinsicFn {
	return func(fr *frame, args []value) value {
		i := fr.i
		x := args[0].(iface)
		s, ok := x.v.([]value)
		if !ok {
			panic(i.unsupported("sort.Slice on non-slice"))
		}
		less := args[1]
		// insertion sort driven by the target's less closure (forks on symbolic comparisons).
		// Go's pdqsort uses insertion sort below 12 elements; results for equal elements may be
		// ordered differently for longer inputs (sort.Slice is not stable) - noted.
		if len(s) > 12 && !stable {
			i.note("sort.Slice on >12 elements modelled as insertion sort (order of equal elements may differ)")
		}
		for a := 1; a < len(s); a++ {
			for b := a; b > 0; b-- {
				r := call(i, fr, token.NoPos, less, []value{b, b - 1})
				if !i.decideValue(r) {
					break
				}
				tb, tb1 := copyVal(s[b]), copyVal(s[b-1])
				i.setCell(&s[b], tb1)
				i.setCell(&s[b-1], tb)
			}
		}
		return nil
	}
}

var _ = bits.Len
var _ = fmt.Sprint
var _ *ssa.Function

// randBelow models Uint64n/Uint32n: 0 for n == 0, otherwise an arbitrary value below n.
func (i *Interp) countDraw() {
	i.path.randDraws++
	if m := i.cfg.MaxRandDraws; m > 0 && i.path.randDraws > m {
		panic(pathAbort{"bound-cut", fmt.Sprintf("more than %d random draws on one path (max_rand_draws)", m)})
	}
}

func (i *Interp) randBelow(n value, k types.BasicKind, kind string) value {
	c := i.ctx
	i.countDraw()
	if !isSym(n) {
		if rawBits(n) == 0 {
			// the tape still records a draw so that native replay stays aligned
			i.nondet(kind, k, "rand.n")
			return mkConcreteInt(k, 0)
		}
		if nb := rawBits(n); nb <= 1<<31 {
			// small concrete bound: ranged mathematical integer (converts exactly to float64)
			return i.nondetRange(k, big.NewInt(0), new(big.Int).SetUint64(nb-1), kind)
		}
	}
	x := i.nondet(kind, k, "rand.n").(sym)
	var xt, nt *smt.Term
	if isIntMode(n) {
		// Int-mode bound: compare as integers
		t, _, _ := i.intTerm(n)
		xt, nt = c.BV2Nat(x.t), t
		zero := c.Eq(nt, c.IntConst64(0))
		i.assume(c.Or(c.And(zero, c.Eq(xt, c.IntConst64(0))), c.ILt(xt, nt)))
		return x
	}
	xt, nt = x.t, i.bvTerm(n)
	zero := c.Eq(nt, c.BVConst(0, kindWidth(k)))
	i.assume(c.Or(c.And(zero, c.Eq(xt, c.BVConst(0, kindWidth(k)))), c.BVUlt(xt, nt)))
	return x
}

// errorsIs models errors.Is without reflection: identity (comparable dynamic types), an Is(error) bool
// method, then Unwrap() error / Unwrap() []error, as the standard library does.
func (i *Interp) errorsIs(fr *frame, err, target iface, depth int) bool {
	if err.t == nil || target.t == nil {
		return err.t == nil && target.t == nil
	}
	if depth > 32 {
		panic(i.unsupported("errors.Is: unwrap chain too deep"))
	}
	if types.Identical(err.t, target.t) && types.Comparable(err.t) {
		if i.decide(i.equalsT(err.t, err.v, target.v)) {
			return true
		}
	}
	ms := i.prog.MethodSets.MethodSet(err.t)
	for j := 0; j < ms.Len(); j++ {
		sel := ms.At(j)
		sig, _ := sel.Type().(*types.Signature)
		if sig == nil {
			continue
		}
		switch sel.Obj().Name() {
		case "Is":
			if sig.Params().Len() == 1 && sig.Results().Len() == 1 {
				r := call(i, fr, token.NoPos, i.prog.MethodValue(sel), []value{err.v, target})
				if i.decideValue(r) {
					return true
				}
			}
		}
	}
	for j := 0; j < ms.Len(); j++ {
		sel := ms.At(j)
		sig, _ := sel.Type().(*types.Signature)
		if sig == nil || sel.Obj().Name() != "Unwrap" || sig.Params().Len() != 0 || sig.Results().Len() != 1 {
			continue
		}
		r := call(i, fr, token.NoPos, i.prog.MethodValue(sel), []value{err.v})
		switch rv := r.(type) {
		case iface:
			return i.errorsIs(fr, rv, target, depth+1)
		case []value:
			for _, e := range rv {
				if ei, ok := e.(iface); ok && i.errorsIs(fr, ei, target, depth+1) {
					return true
				}
			}
		}
	}
	return false
}

// math.Min / math.Max: NaN if either operand is NaN, otherwise the smaller / larger one (the sign of
// zero is not distinguished for symbolic operands).
func mathMinMax(isMin bool) intrinsicFn {
	return func(fr *frame, args []value) value {
		i := fr.i
		x, y := args[0], args[1]
		xf, xc := x.(float64)
		yf, yc := y.(float64)
		if xc && yc {
			if isMin {
				return math.Min(xf, yf)
			}
			return math.Max(xf, yf)
		}
		if (xc && math.IsNaN(xf)) || (yc && math.IsNaN(yf)) {
			return math.NaN()
		}
		op := token.LSS
		if !isMin {
			op = token.GTR
		}
		c := i.boolTerm(i.binop(op, nil, x, y))
		r, ok := i.iteValue(c, x, y)
		if !ok {
			panic(i.unsupported("math.Min/Max operands"))
		}
		// NaN propagation for FP-sorted operands
		for _, o := range []value{x, y} {
			if s, ok := o.(sym); ok && s.t.Sort.K != smt.KInt {
				nan := i.ctx.FPPred("fp.isNaN", i.fpTerm(o))
				r2, ok := i.iteValue(nan, math.NaN(), r)
				if !ok {
					panic(i.unsupported("math.Min/Max NaN merge"))
				}
				r = r2
			}
		}
		return r
	}
}
