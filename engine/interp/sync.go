package interp

import (
	"fmt"
	"go/token"
	"go/types"

	"golang.org/x/tools/go/ssa"

	"verif/gosx/smt"
)

// firstCellOfKind descends a struct value to the first cell holding a value of dynamic kind k.
func firstScalarCell(p *value, want func(value) bool) *value {
	switch v := (*p).(type) {
	case structure:
		for j := range v {
			if c := firstScalarCell(&v[j], want); c != nil {
				return c
			}
		}
	case array:
		for j := range v {
			if c := firstScalarCell(&v[j], want); c != nil {
				return c
			}
		}
	default:
		if want(v) {
			return p
		}
	}
	return nil
}

func isInt32(v value) bool { _, ok := v.(int32); return ok }

func (i *Interp) mutexCell(fr *frame, p value) *value {
	a := i.asPtr(p)
	if a == nil {
		panic(i.runtimePanic("invalid memory address or nil pointer dereference"))
	}
	c := firstScalarCell(a, isInt32)
	if c == nil {
		panic(i.unsupported("mutex layout"))
	}
	return c
}

// nth int32/uint32 scalar cells of a struct in order (flattened)
func scalarCells(p *value, out *[]*value) {
	switch v := (*p).(type) {
	case structure:
		for j := range v {
			scalarCells(&v[j], out)
		}
	case array:
		for j := range v {
			scalarCells(&v[j], out)
		}
	default:
		*out = append(*out, p)
	}
}

func (i *Interp) lockMutex(fr *frame, c *value, what string) {
	i.ensureSchedIfMulti()
	if i.sched != nil {
		i.block(fr, what, func() bool { return (*c).(int32) == 0 })
		i.checkChildPanic()
	}
	if (*c).(int32) != 0 {
		panic(pathAbort{"deadlock", what + ": mutex already held and no other goroutine can release it"})
	}
	i.setCell(c, int32(1))
}

func (i *Interp) ensureSchedIfMulti() {}

func (i *Interp) unlockMutex(fr *frame, c *value) {
	if (*c).(int32) == 0 {
		panic(targetPanic{v: iface{t: i.runtimeErrorString, v: "sync: unlock of unlocked mutex"}, fatal: true})
	}
	i.setCell(c, int32(0))
	i.yieldOnRelease(fr)
}

// Release-type operations (Unlock, Signal, Broadcast) cannot block and only enable others: under the
// stated data-race-freedom assumption everything the releasing goroutine does up to its next acquire
// commutes with what the enabled goroutines do, so a context switch right after a release adds no
// behaviour that a switch at the next acquire/blocking operation does not already give. Skipping
// these scheduling points (default) is the usual partial-order reduction; yield_on_release restores them.
func (i *Interp) yieldOnRelease(fr *frame) {
	if i.cfg.YieldOnRelease {
		i.yield(fr)
	}
}

type condState struct {
	waiters []*condWaiter
}
type condWaiter struct{ signalled bool }

func registerSync() {
	reg := func(names []string, f intrinsicFn) {
		for _, n := range names {
			intrinsics[n] = f
		}
	}
	reg([]string{"(*sync.Mutex).Lock", "(*internal/sync.Mutex).Lock"}, func(fr *frame, args []value) value {
		fr.i.lockMutex(fr, fr.i.mutexCell(fr, args[0]), "Mutex.Lock")
		return nil
	})
	reg([]string{"(*sync.Mutex).Unlock", "(*internal/sync.Mutex).Unlock"}, func(fr *frame, args []value) value {
		fr.i.unlockMutex(fr, fr.i.mutexCell(fr, args[0]))
		return nil
	})
	reg([]string{"(*sync.Mutex).TryLock", "(*internal/sync.Mutex).TryLock"}, func(fr *frame, args []value) value {
		c := fr.i.mutexCell(fr, args[0])
		fr.i.yield(fr)
		if (*c).(int32) != 0 {
			return false
		}
		fr.i.setCell(c, int32(1))
		return true
	})
	// RWMutex: cells[0]=writer state (int32 in w), readerCount kept in the 4th scalar cell
	rw := func(p value, fr *frame) (w *value, rc *value) {
		a := fr.i.asPtr(p)
		var cells []*value
		scalarCells(a, &cells)
		var i32 []*value
		for _, c := range cells {
			if _, ok := (*c).(int32); ok {
				i32 = append(i32, c)
			}
		}
		if len(i32) < 2 {
			panic(fr.i.unsupported("RWMutex layout"))
		}
		return i32[0], i32[1]
	}
	intrinsics["(*sync.RWMutex).Lock"] = func(fr *frame, args []value) value {
		w, rc := rw(args[0], fr)
		i := fr.i
		if i.sched != nil {
			i.block(fr, "RWMutex.Lock", func() bool { return (*w).(int32) == 0 && (*rc).(int32) == 0 })
			i.checkChildPanic()
		}
		if (*w).(int32) != 0 || (*rc).(int32) != 0 {
			panic(pathAbort{"deadlock", "RWMutex.Lock: already held"})
		}
		i.setCell(w, int32(1))
		return nil
	}
	intrinsics["(*sync.RWMutex).Unlock"] = func(fr *frame, args []value) value {
		w, _ := rw(args[0], fr)
		fr.i.unlockMutex(fr, w)
		return nil
	}
	intrinsics["(*sync.RWMutex).RLock"] = func(fr *frame, args []value) value {
		w, rc := rw(args[0], fr)
		i := fr.i
		if i.sched != nil {
			i.block(fr, "RWMutex.RLock", func() bool { return (*w).(int32) == 0 })
			i.checkChildPanic()
		}
		if (*w).(int32) != 0 {
			panic(pathAbort{"deadlock", "RWMutex.RLock: writer holds the lock"})
		}
		i.setCell(rc, (*rc).(int32)+1)
		return nil
	}
	intrinsics["(*sync.RWMutex).RUnlock"] = func(fr *frame, args []value) value {
		_, rc := rw(args[0], fr)
		if (*rc).(int32) <= 0 {
			panic(targetPanic{v: iface{t: fr.i.runtimeErrorString, v: "sync: RUnlock of unlocked RWMutex"}, fatal: true})
		}
		fr.i.setCell(rc, (*rc).(int32)-1)
		fr.i.yield(fr)
		return nil
	}
	intrinsics["(*sync.RWMutex).TryLock"] = func(fr *frame, args []value) value {
		w, rc := rw(args[0], fr)
		fr.i.yield(fr)
		if (*w).(int32) != 0 || (*rc).(int32) != 0 {
			return false
		}
		fr.i.setCell(w, int32(1))
		return true
	}
	intrinsics["(*sync.RWMutex).TryRLock"] = func(fr *frame, args []value) value {
		w, rc := rw(args[0], fr)
		fr.i.yield(fr)
		if (*w).(int32) != 0 {
			return false
		}
		fr.i.setCell(rc, (*rc).(int32)+1)
		return true
	}

	// sync.Cond: waiter list kept engine-side keyed by the Cond's address
	intrinsics["(*sync.Cond).Wait"] = func(fr *frame, args []value) value {
		i := fr.i
		i.ensureSched()
		cp := i.asPtr(args[0])
		cs := i.condOf(cp)
		w := &condWaiter{}
		cs.waiters = append(cs.waiters, w)
		// c.L.Unlock()
		L := (*cp).(structure)[condLIndex(*cp)].(iface)
		i.callMethod(fr, L, "Unlock")
		i.block(fr, "Cond.Wait", func() bool { return w.signalled })
		i.checkChildPanic()
		i.callMethod(fr, L, "Lock")
		return nil
	}
	intrinsics["(*sync.Cond).Signal"] = func(fr *frame, args []value) value {
		i := fr.i
		cs := i.condOf(i.asPtr(args[0]))
		if len(cs.waiters) > 0 {
			cs.waiters[0].signalled = true
			cs.waiters = cs.waiters[1:]
		}
		i.yieldOnRelease(fr)
		return nil
	}
	intrinsics["(*sync.Cond).Broadcast"] = func(fr *frame, args []value) value {
		i := fr.i
		cs := i.condOf(i.asPtr(args[0]))
		for _, w := range cs.waiters {
			w.signalled = true
		}
		cs.waiters = nil
		i.yieldOnRelease(fr)
		return nil
	}
	intrinsics["sync.NewCond"] = nil
	delete(intrinsics, "sync.NewCond")

	// WaitGroup: counter in first scalar cell that is uint64/int32... keep engine-side
	intrinsics["(*sync.WaitGroup).Add"] = func(fr *frame, args []value) value {
		i := fr.i
		st := i.wgOf(i.asPtr(args[0]))
		st.n += int(asInt64(args[1]))
		if st.n < 0 {
			panic(targetPanic{v: iface{t: i.runtimeErrorString, v: "sync: negative WaitGroup counter"}})
		}
		i.yield(fr)
		return nil
	}
	intrinsics["(*sync.WaitGroup).Done"] = func(fr *frame, args []value) value {
		i := fr.i
		st := i.wgOf(i.asPtr(args[0]))
		st.n--
		if st.n < 0 {
			panic(targetPanic{v: iface{t: i.runtimeErrorString, v: "sync: negative WaitGroup counter"}})
		}
		i.yield(fr)
		return nil
	}
	intrinsics["(*sync.WaitGroup).Wait"] = func(fr *frame, args []value) value {
		i := fr.i
		st := i.wgOf(i.asPtr(args[0]))
		i.ensureSched()
		i.block(fr, "WaitGroup.Wait", func() bool { return st.n == 0 })
		i.checkChildPanic()
		return nil
	}
	intrinsics["(*sync.Pool).Get"] = func(fr *frame, args []value) value {
		i := fr.i
		a := i.asPtr(args[0])
		st := (*a).(structure)
		newFn := st[len(st)-1]
		if !isNilRef(newFn) {
			return call(i, fr, token.NoPos, newFn, nil)
		}
		return iface{}
	}
	intrinsics["(*sync.Pool).Put"] = func(fr *frame, args []value) value { return nil }

	// ---- sync/atomic ----
	for _, ty := range []string{"Int32", "Int64", "Uint32", "Uint64", "Uintptr", "Pointer"} {
		ty := ty
		intrinsics["sync/atomic.Load"+ty] = func(fr *frame, args []value) value {
			fr.i.yield(fr)
			return fr.i.loadCell(args[0])
		}
		intrinsics["sync/atomic.Store"+ty] = func(fr *frame, args []value) value {
			fr.i.setCell(fr.i.cellPtr(args[0]), args[1])
			fr.i.yield(fr)
			return nil
		}
		intrinsics["sync/atomic.Swap"+ty] = func(fr *frame, args []value) value {
			c := fr.i.cellPtr(args[0])
			old := *c
			fr.i.setCell(c, args[1])
			fr.i.yield(fr)
			return old
		}
		intrinsics["sync/atomic.CompareAndSwap"+ty] = func(fr *frame, args []value) value {
			i := fr.i
			c := i.cellPtr(args[0])
			var eq bool
			switch (*c).(type) {
			case *value, nil:
				eq = ptrEq(*c, args[1])
			default:
				eq = i.decideValue(i.binop(token.EQL, nil, *c, args[1]))
			}
			if eq {
				i.setCell(c, args[2])
			}
			i.yield(fr)
			return eq
		}
		if ty != "Pointer" {
			intrinsics["sync/atomic.Add"+ty] = func(fr *frame, args []value) value {
				i := fr.i
				c := i.cellPtr(args[0])
				nv := i.binop(token.ADD, nil, *c, args[1])
				i.setCell(c, nv)
				i.yield(fr)
				return nv
			}
			intrinsics["sync/atomic.And"+ty] = func(fr *frame, args []value) value {
				i := fr.i
				c := i.cellPtr(args[0])
				old := *c
				i.setCell(c, i.binop(token.AND, nil, *c, args[1]))
				return old
			}
			intrinsics["sync/atomic.Or"+ty] = func(fr *frame, args []value) value {
				i := fr.i
				c := i.cellPtr(args[0])
				old := *c
				i.setCell(c, i.binop(token.OR, nil, *c, args[1]))
				return old
			}
		}
	}
	// atomic.Value: {v any}
	intrinsics["(*sync/atomic.Value).Load"] = func(fr *frame, args []value) value {
		a := fr.i.asPtr(args[0])
		return (*a).(structure)[0]
	}
	intrinsics["(*sync/atomic.Value).Store"] = func(fr *frame, args []value) value {
		a := fr.i.asPtr(args[0])
		st := (*a).(structure)
		fr.i.setCell(&st[0], args[1])
		return nil
	}
	// atomic.Pointer[T] methods are generic instantiations that go through unsafe: handle by name prefix in callSSA
}

func (i *Interp) cellPtr(p value) *value {
	a := i.asPtr(p)
	if a == nil {
		panic(i.runtimePanic("invalid memory address or nil pointer dereference"))
	}
	return a
}

func (i *Interp) loadCell(p value) value { return *i.cellPtr(p) }

func condLIndex(v value) int {
	st := v.(structure)
	for j := range st {
		if _, ok := st[j].(iface); ok {
			return j
		}
	}
	panic("sync.Cond layout")
}

func (i *Interp) callMethod(fr *frame, recv iface, name string) value {
	if recv.t == nil {
		panic(i.runtimePanic("invalid memory address or nil pointer dereference"))
	}
	ms := i.prog.MethodSets.MethodSet(recv.t)
	for j := 0; j < ms.Len(); j++ {
		sel := ms.At(j)
		if sel.Obj().Name() == name {
			fn := i.prog.MethodValue(sel)
			return call(i, fr, token.NoPos, fn, []value{recv.v})
		}
	}
	panic(fmt.Sprintf("method %s not found on %v", name, recv.t))
}

type wgState struct{ n int }

func (i *Interp) condOf(p *value) *condState {
	if i.path.conds == nil {
		i.path.conds = map[*value]*condState{}
	}
	cs := i.path.conds[p]
	if cs == nil {
		cs = &condState{}
		i.path.conds[p] = cs
	}
	return cs
}

func (i *Interp) wgOf(p *value) *wgState {
	if i.path.wgs == nil {
		i.path.wgs = map[*value]*wgState{}
	}
	s := i.path.wgs[p]
	if s == nil {
		s = &wgState{}
		i.path.wgs[p] = s
	}
	return s
}

// ---- stubs ----

// runStub replaces a function according to the check configuration.
func (i *Interp) runStub(fr *frame, fn *ssa.Function, kind string, args []value) value {
	res := fn.Signature.Results()
	switch {
	case kind == "noop":
		return zeroResults(res)
	case kind == "nondet":
		return i.nondetResults(fn, res)
	case kind == "panic":
		panic(i.unsupported("stubbed-out function reached: " + fn.String()))
	case len(kind) > 6 && kind[:6] == "model:":
		name := kind[6:]
		m := i.lookupFunc(name)
		if m == nil {
			panic(i.unsupported("model function not found: " + name))
		}
		return callSSA(i, fr, token.NoPos, m, args, nil)
	case kind == "uf":
		return i.ufResult(fn, args)
	}
	panic(i.unsupported("unknown stub kind " + kind))
}

func zeroResults(res *types.Tuple) value {
	switch res.Len() {
	case 0:
		return nil
	case 1:
		return zero(res.At(0).Type())
	}
	t := make(tuple, res.Len())
	for j := range t {
		t[j] = zero(res.At(j).Type())
	}
	return t
}

func (i *Interp) nondetOfType(t types.Type, name string) value {
	switch u := t.Underlying().(type) {
	case *types.Basic:
		k := u.Kind()
		switch {
		case k == types.Bool:
			return i.nondet("bool", k, name)
		case kindIsInt(k):
			return i.nondet(fmt.Sprintf("%s%d", map[bool]string{true: "i", false: "u"}[kindSigned(k)], kindWidth(k)), k, name)
		case k == types.Float64:
			s := i.nondet("f64", types.Uint64, name).(sym)
			return sym{t: s.t, k: types.Float64}
		case k == types.Float32:
			s := i.nondet("f32", types.Uint32, name).(sym)
			return sym{t: s.t, k: types.Float32}
		}
	case *types.Interface:
		if types.Identical(t, types.Universe.Lookup("error").Type()) {
			// arbitrary error: nil or an opaque non-nil error
			if i.decideValue(i.nondet("bool", types.Bool, name+".isnil")) {
				return iface{}
			}
			return i.opaqueError("stub error from " + name)
		}
	case *types.Struct:
		s := make(structure, u.NumFields())
		for j := range s {
			s[j] = i.nondetOfType(u.Field(j).Type(), name)
		}
		return s
	}
	panic(i.unsupported(fmt.Sprintf("nondet stub result of type %v", t)))
}

func (i *Interp) opaqueError(msg string) value {
	p := i.prog.ImportedPackage("errors")
	if p == nil {
		panic(i.unsupported("errors package not loaded"))
	}
	i.ex.buildPkg(p)
	et := p.Type("errorString")
	var cell value = structure{msg}
	return iface{t: types.NewPointer(et.Type()), v: &cell}
}

func (i *Interp) nondetResults(fn *ssa.Function, res *types.Tuple) value {
	switch res.Len() {
	case 0:
		return nil
	case 1:
		return i.nondetOfType(res.At(0).Type(), fn.Name())
	}
	t := make(tuple, res.Len())
	for j := range t {
		t[j] = i.nondetOfType(res.At(j).Type(), fn.Name())
	}
	return t
}

// ufResult: uninterpreted function of the argument bytes / scalars -> single scalar result.
func (i *Interp) ufResult(fn *ssa.Function, args []value) value {
	res := fn.Signature.Results()
	if res.Len() != 1 {
		panic(i.unsupported("uf stub needs exactly one result: " + fn.String()))
	}
	k, ok := basicKindOf(res.At(0).Type())
	if !ok || !kindIsInt(k) {
		// struct of integers (xxh3.Uint128 {Hi, Lo}): one uninterpreted function per field
		if st, ok := res.At(0).Type().Underlying().(*types.Struct); ok {
			out := make(structure, st.NumFields())
			for j := range out {
				fk, ok := basicKindOf(st.Field(j).Type())
				if !ok || !kindIsInt(fk) {
					panic(i.unsupported("uf stub result struct must have integer fields: " + fn.String()))
				}
				out[j] = i.ufApply(ufName(fn.String())+"_"+st.Field(j).Name(), fk, args)
			}
			return out
		}
		panic(i.unsupported("uf stub result must be an integer: " + fn.String()))
	}
	return i.ufApply(ufName(fn.String()), k, args)
}

func ufName(s string) string {
	out := []byte("uf_")
	for j := 0; j < len(s); j++ {
		c := s[j]
		if (c >= 'a' && c <= 'z') || (c >= 'A' && c <= 'Z') || (c >= '0' && c <= '9') {
			out = append(out, c)
		} else {
			out = append(out, '_')
		}
	}
	return string(out)
}

// ufApply builds name_<shape>(args...) : BV(width k). Byte sequences are concatenated into one wide BV.
func (i *Interp) ufApply(name string, k types.BasicKind, args []value) value {
	c := i.ctx
	var ts []*smt.Term
	shape := ""
	allConc := true
	for _, a := range args {
		switch av := a.(type) {
		case []value:
			shape += fmt.Sprintf("_b%d", len(av))
			if len(av) == 0 {
				continue
			}
			var acc *smt.Term
			for _, e := range av {
				if isSym(e) {
					allConc = false
				}
				t := i.bvTerm(e)
				if acc == nil {
					acc = t
				} else {
					acc = c.Concat(acc, t)
				}
			}
			ts = append(ts, acc)
		case string, symstr:
			b := strBytes(a)
			shape += fmt.Sprintf("_s%d", len(b))
			if len(b) == 0 {
				continue
			}
			var acc *smt.Term
			for _, e := range b {
				if isSym(e) {
					allConc = false
				}
				t := i.bvTerm(e)
				if acc == nil {
					acc = t
				} else {
					acc = c.Concat(acc, t)
				}
			}
			ts = append(ts, acc)
		case *value:
			// pointer arguments (e.g. the constant *crc32.Table) do not enter the function
			shape += "_p"
			continue
		default:
			kk := kindOfValue(a)
			if kk == types.Invalid {
				panic(i.unsupported(fmt.Sprintf("uf argument of type %T", a)))
			}
			if isSym(a) {
				allConc = false
			}
			t, _ := i.scalarTerm(a)
			if t.Sort.K == smt.KInt {
				t = c.Int2BV(t, kindWidth(kk))
			}
			if t.Sort.K == smt.KBool {
				t = c.Ite(t, c.BVConst(1, 8), c.BVConst(0, 8))
			}
			shape += fmt.Sprintf("_%d", t.Sort.W)
			ts = append(ts, t)
		}
	}
	_ = allConc
	if len(ts) == 0 {
		ts = append(ts, c.BVConst(0, 8))
		shape += "_nil"
	}
	return sym{t: c.UF(name+shape, smt.BV(kindWidth(k)), ts...), k: k}
}

func (i *Interp) lookupFunc(name string) *ssa.Function {
	// name: "pkgpath.Func"
	for _, p := range i.prog.AllPackages() {
		pp := p.Pkg.Path()
		if len(name) > len(pp)+1 && name[:len(pp)] == pp && name[len(pp)] == '.' {
			if f := p.Func(name[len(pp)+1:]); f != nil {
				i.ex.buildPkg(p)
				return f
			}
		}
	}
	return nil
}
