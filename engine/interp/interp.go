// Package interp: a symbolic interpreter for go/ssa, derived from
// golang.org/x/tools/go/ssa/interp (BSD-style license, The Go Authors).
//
// Scalars are native Go values when concrete and smt terms when symbolic;
// the heap is the interpreter's own native object graph (undo-logged), and
// symbolic branches are explored by decision-prefix replay (explore.go).
package interp

import (
	"fmt"
	"go/token"
	"go/types"
	"os"
	"runtime"
	"slices"
	"strings"

	"golang.org/x/tools/go/ssa"

	"verif/gosx/smt"
)

type continuation int

const (
	kNext continuation = iota
	kReturn
	kJump
)

// Interp is one worker: SSA program (shared, read-only), own heap, own solver.
type Interp struct {
	pkgBuilt map[*ssa.Package]bool // packages this interpreter has seen completely built
	prog     *ssa.Program
	cfg      *Config
	sizes    types.Sizes
	ctx      *smt.Ctx
	solver   *smt.Solver
	globals  map[*ssa.Global]*value
	pkgInit  map[*ssa.Package]int // 0 not started, 1 running, 2 done
	undo     []undoRec
	logging  bool
	initing  int

	path *pathState
	ex   *Explorer
	wid  int

	runtimeErrorString types.Type
	trace              bool
	funcsSeen          map[*ssa.Function]bool
	notes              map[string]int
	sched              *scheduler
	curG               *goroutine
	files              *fileTable
	hostFns            map[string]*ssa.Function
	hasPrev            bool
	timerOf            map[*value]*vtimer
	curInstr           ssa.Instruction
	curFn              *ssa.Function
}

type deferred struct {
	fn    value
	args  []value
	instr *ssa.Defer
	tail  *deferred
}

type frame struct {
	i                *Interp
	caller           *frame
	fn               *ssa.Function
	block, prevBlock *ssa.BasicBlock
	env              map[ssa.Value]value
	locals           []value
	defers           *deferred
	result           value
	panicking        bool
	panic            interface{}
	phitemps         []value
	symIf            map[*ssa.If]int
	depth            int
	g                *goroutine
}

// hostFn is a function value implemented by the engine.
type hostFn struct {
	name string
	fn   func(fr *frame, args []value) value
}

func (fr *frame) get(key ssa.Value) value {
	switch key := key.(type) {
	case nil:
		return nil
	case *ssa.Function, *ssa.Builtin:
		return key
	case *ssa.Const:
		return constValue(key)
	case *ssa.Global:
		return fr.i.globalAddr(key)
	}
	if r, ok := fr.env[key]; ok {
		return r
	}
	panic(fmt.Sprintf("get: no value for %T: %v", key, key.Name()))
}

// ---- path-terminating host panics ----

type pathAbort struct {
	kind string // "infeasible", "unsupported", "unwind", "steps", "stop"
	msg  string
}

func (i *Interp) unsupported(msg string) pathAbort {
	return pathAbort{"unsupported", msg}
}

func (i *Interp) note(s string) {
	if i.notes == nil {
		i.notes = map[string]int{}
	}
	i.notes[s]++
}

// runtimePanic builds a target panic carrying a runtime.Error-like value.
func (i *Interp) runtimePanic(msg string) targetPanic {
	return targetPanic{v: iface{t: i.runtimeErrorString, v: "runtime error: " + msg}, runtime: true}
}

func (fr *frame) runDefer(d *deferred) {
	var ok bool
	defer func() {
		if !ok {
			r := recover()
			if pa, isAbort := r.(pathAbort); isAbort {
				panic(pa)
			}
			fr.panicking = true
			fr.panic = r
		}
	}()
	call(fr.i, fr, d.instr.Pos(), d.fn, d.args)
	ok = true
}

func (fr *frame) runDefers() {
	for d := fr.defers; d != nil; d = d.tail {
		fr.runDefer(d)
	}
	fr.defers = nil
	if fr.panicking {
		panic(fr.panic)
	}
}

func lookupMethod(i *Interp, typ types.Type, meth *types.Func) *ssa.Function {
	return i.prog.LookupMethod(typ, meth.Pkg(), meth.Name())
}

func deref(t types.Type) types.Type {
	if p, ok := t.Underlying().(*types.Pointer); ok {
		return p.Elem()
	}
	panic(fmt.Sprintf("deref: %v is not a pointer", t))
}

func visitInstr(fr *frame, instr ssa.Instruction) continuation {
	i := fr.i
	switch instr := instr.(type) {
	case *ssa.DebugRef:

	case *ssa.UnOp:
		fr.env[instr] = i.unop(fr, instr, fr.get(instr.X))

	case *ssa.BinOp:
		fr.env[instr] = i.binop(instr.Op, instr.X.Type(), fr.get(instr.X), fr.get(instr.Y))

	case *ssa.Call:
		fn, args := prepareCall(fr, &instr.Call)
		fr.env[instr] = call(fr.i, fr, instr.Pos(), fn, args)

	case *ssa.ChangeInterface:
		fr.env[instr] = fr.get(instr.X)

	case *ssa.ChangeType:
		fr.env[instr] = fr.get(instr.X)

	case *ssa.Convert:
		fr.env[instr] = i.conv(instr.Type(), instr.X.Type(), fr.get(instr.X))

	case *ssa.SliceToArrayPointer:
		fr.env[instr] = i.sliceToArrayPointer(instr.Type(), instr.X.Type(), fr.get(instr.X))

	case *ssa.MakeInterface:
		fr.env[instr] = iface{t: instr.X.Type(), v: fr.get(instr.X)}

	case *ssa.Extract:
		fr.env[instr] = fr.get(instr.Tuple).(tuple)[instr.Index]

	case *ssa.Slice:
		fr.env[instr] = i.slice(fr.get(instr.X), fr.get(instr.Low), fr.get(instr.High), fr.get(instr.Max))

	case *ssa.Return:
		switch len(instr.Results) {
		case 0:
		case 1:
			fr.result = fr.get(instr.Results[0])
		default:
			var res []value
			for _, r := range instr.Results {
				res = append(res, fr.get(r))
			}
			fr.result = tuple(res)
		}
		fr.block = nil
		return kReturn

	case *ssa.RunDefers:
		fr.runDefers()

	case *ssa.Panic:
		panic(targetPanic{v: fr.get(instr.X)})

	case *ssa.Send:
		i.chanSend(fr, fr.get(instr.Chan).(*channel), fr.get(instr.X))

	case *ssa.Store:
		i.storeTo(deref(instr.Addr.Type()), fr.get(instr.Addr), fr.get(instr.Val))

	case *ssa.If:
		succ := 1
		cond := fr.get(instr.Cond)
		var b bool
		if s, ok := cond.(sym); ok {
			if fr.symIf == nil {
				fr.symIf = map[*ssa.If]int{}
			}
			fr.symIf[instr]++
			if fr.symIf[instr] > i.cfg.Unwind {
				panic(pathAbort{"unwind", fmt.Sprintf("%s: symbolic branch at %s taken more than %d times in one activation",
					fr.fn, i.prog.Fset.Position(instr.Pos()), i.cfg.Unwind)})
			}
			b = i.decide(s.t)
		} else {
			b = cond.(bool)
		}
		if b {
			succ = 0
		}
		fr.prevBlock, fr.block = fr.block, fr.block.Succs[succ]
		return kJump

	case *ssa.Jump:
		fr.prevBlock, fr.block = fr.block, fr.block.Succs[0]
		return kJump

	case *ssa.Defer:
		fn, args := prepareCall(fr, &instr.Call)
		defers := &fr.defers
		if into := fr.get(instr.DeferStack); into != nil {
			defers = into.(**deferred)
		}
		*defers = &deferred{fn: fn, args: args, instr: instr, tail: *defers}

	case *ssa.Go:
		fn, args := prepareCall(fr, &instr.Call)
		i.goStart(fr, instr, fn, args)

	case *ssa.MakeChan:
		fr.env[instr] = i.makeChan(int(i.concreteInt(fr.get(instr.Size), "chan size")))

	case *ssa.Alloc:
		var addr *value
		if instr.Heap {
			addr = new(value)
			fr.env[instr] = addr
		} else {
			addr = fr.env[instr].(*value)
		}
		*addr = zero(deref(instr.Type()))

	case *ssa.MakeSlice:
		n := i.allocLen(fr.get(instr.Len), "make len")
		cp := n
		if instr.Cap != instr.Len {
			cp = i.allocLen(fr.get(instr.Cap), "make cap")
		}
		if n < 0 || cp < n {
			panic(i.runtimePanic("makeslice: len out of range"))
		}
		tElt := instr.Type().Underlying().(*types.Slice).Elem()
		if int64(cp)*i.sizes.Sizeof(tElt) > i.cfg.MaxAllocBytes {
			panic(targetPanic{v: iface{t: i.runtimeErrorString, v: fmt.Sprintf("runtime: out of memory: allocation of %d elements of %d bytes", cp, i.sizes.Sizeof(tElt))}, runtime: true, fatal: true})
		}
		sl := make([]value, cp)
		z := zero(tElt)
		switch z.(type) {
		case structure, array:
			for j := range sl {
				sl[j] = zero(tElt)
			}
		default:
			for j := range sl {
				sl[j] = z
			}
		}
		fr.env[instr] = sl[:n]

	case *ssa.MakeMap:
		fr.env[instr] = newAmap(instr.Type().Underlying().(*types.Map).Key())

	case *ssa.Range:
		fr.env[instr] = i.rangeIter(fr, fr.get(instr.X), instr.X.Type())

	case *ssa.Next:
		fr.env[instr] = fr.get(instr.Iter).(iter).next()

	case *ssa.FieldAddr:
		p := i.asPtr(fr.get(instr.X))
		if p == nil {
			panic(i.runtimePanic("invalid memory address or nil pointer dereference"))
		}
		fr.env[instr] = &(*p).(structure)[instr.Field]

	case *ssa.Field:
		fr.env[instr] = fr.get(instr.X).(structure)[instr.Field]

	case *ssa.IndexAddr:
		fr.env[instr] = i.indexAddr(fr.get(instr.X), fr.get(instr.Index))

	case *ssa.Index:
		fr.env[instr] = i.index(fr.get(instr.X), fr.get(instr.Index))

	case *ssa.Lookup:
		fr.env[instr] = i.lookup(instr, fr.get(instr.X), fr.get(instr.Index))

	case *ssa.MapUpdate:
		m := fr.get(instr.Map).(*amap)
		if m == nil {
			panic(targetPanic{v: iface{t: i.runtimeErrorString, v: "assignment to entry in nil map"}, runtime: true})
		}
		i.mapInsert(m, fr.get(instr.Key), copyVal(fr.get(instr.Value)))

	case *ssa.TypeAssert:
		fr.env[instr] = typeAssert(fr.i, instr, fr.get(instr.X).(iface))

	case *ssa.MakeClosure:
		var bindings []value
		for _, binding := range instr.Bindings {
			bindings = append(bindings, fr.get(binding))
		}
		fr.env[instr] = &closure{instr.Fn.(*ssa.Function), bindings}

	case *ssa.Phi:
		panic("unreachable: phi")

	case *ssa.Select:
		fr.env[instr] = i.selectStmt(fr, instr)

	default:
		panic(fmt.Sprintf("unexpected instruction: %T", instr))
	}
	return kNext
}

// copyVal makes an unaliased copy of aggregates.
func copyVal(v value) value {
	switch v := v.(type) {
	case structure:
		a := make(structure, len(v))
		for j := range v {
			a[j] = copyVal(v[j])
		}
		return a
	case array:
		a := make(array, len(v))
		for j := range v {
			a[j] = copyVal(v[j])
		}
		return a
	}
	return v
}

func prepareCall(fr *frame, call *ssa.CallCommon) (fn value, args []value) {
	v := fr.get(call.Value)
	if call.Method == nil {
		fn = v
	} else {
		recv := v.(iface)
		if recv.t == nil {
			panic(fr.i.runtimePanic("invalid memory address or nil pointer dereference (method call on nil interface)"))
		}
		if f := lookupMethod(fr.i, recv.t, call.Method); f == nil {
			panic(fmt.Sprintf("method set for dynamic type %v does not contain %s", recv.t, call.Method))
		} else {
			fn = f
		}
		args = append(args, recv.v)
	}
	for _, arg := range call.Args {
		args = append(args, fr.get(arg))
	}
	return
}

func call(i *Interp, caller *frame, callpos token.Pos, fn value, args []value) value {
	switch fn := fn.(type) {
	case *ssa.Function:
		if fn == nil {
			panic(i.runtimePanic("invalid memory address or nil pointer dereference (call of nil func)"))
		}
		return callSSA(i, caller, callpos, fn, args, nil)
	case *closure:
		return callSSA(i, caller, callpos, fn.Fn, args, fn.Env)
	case *ssa.Builtin:
		return i.callBuiltin(caller, callpos, fn, args)
	case *hostFn:
		return fn.fn(caller, args)
	}
	panic(fmt.Sprintf("cannot call %T", fn))
}

func (i *Interp) pos(p token.Pos) string {
	if p == token.NoPos {
		return "?"
	}
	ps := i.prog.Fset.Position(p)
	return fmt.Sprintf("%s:%d", strings.TrimPrefix(ps.Filename, "/repo/"), ps.Line)
}

func callSSA(i *Interp, caller *frame, callpos token.Pos, fn *ssa.Function, args []value, env []value) value {
	fr := &frame{i: i, caller: caller, fn: fn}
	if caller != nil {
		fr.depth = caller.depth + 1
		fr.g = caller.g
		if fr.depth > i.cfg.MaxDepth {
			panic(pathAbort{"unwind", fmt.Sprintf("call depth > %d at %s", i.cfg.MaxDepth, fn)})
		}
	}
	name := fn.String()
	if fn.Parent() == nil || fn.Synthetic != "" {
		if st, ok := i.cfg.stubFor(name); ok {
			return i.runStub(fr, fn, st, args)
		}
		if ext := intrinsics[name]; ext != nil {
			return ext(fr, args)
		}
	}
	// dependency packages are built lazily; another worker may be in the middle of building this one
	// (fn.Blocks is then non-nil but unfinished), so always pass through the build lock once per package
	if fn.Pkg != nil && !i.pkgBuilt[fn.Pkg] {
		i.ex.buildPkg(fn.Pkg)
		if i.pkgBuilt == nil {
			i.pkgBuilt = map[*ssa.Package]bool{}
		}
		i.pkgBuilt[fn.Pkg] = true
	}
	if fn.Blocks == nil {
		if fn.Blocks == nil {
			if i.initing > 0 {
				return poisonFor(fn, "no code for function: "+name)
			}
			panic(i.unsupported("no code for function: " + name))
		}
	}
	if fn.TypeParams().Len() > 0 && len(fn.TypeArgs()) == 0 {
		panic(i.unsupported("uninstantiated generic " + name))
	}
	if i.funcsSeen != nil && !i.funcsSeen[fn] {
		i.funcsSeen[fn] = true
	}
	if i.trace {
		fmt.Fprintf(os.Stderr, "%*s-> %s\n", fr.depth, "", name)
	}

	fr.env = make(map[ssa.Value]value, 16)
	fr.block = fn.Blocks[0]
	fr.locals = make([]value, len(fn.Locals))
	for j, l := range fn.Locals {
		fr.locals[j] = zero(deref(l.Type()))
		fr.env[l] = &fr.locals[j]
	}
	for j, p := range fn.Params {
		fr.env[p] = args[j]
	}
	for j, fv := range fn.FreeVars {
		fr.env[fv] = env[j]
	}
	for fr.block != nil {
		runFrame(fr)
	}
	return fr.result
}

func runFrame(fr *frame) {
	defer func() {
		if fr.block == nil {
			return // normal return
		}
		r := recover()
		if pa, ok := r.(pathAbort); ok {
			panic(pa)
		}
		if _, ok := r.(goKill); ok {
			panic(r)
		}
		if tp, ok := r.(targetPanic); ok && tp.fatal {
			panic(r)
		}
		if re, ok := r.(runtime.Error); ok {
			// host runtime error inside the interpreter: either a nil-deref/index of
			// the target (modelled by the same host operation) or an engine bug.
			msg := re.Error()
			if strings.Contains(msg, "nil pointer dereference") || strings.Contains(msg, "index out of range") || strings.Contains(msg, "slice bounds out of range") {
				r = fr.i.runtimePanic(strings.TrimPrefix(msg, "runtime error: "))
			} else {
				panic(pathAbort{"engine", fmt.Sprintf("host runtime error in %s: %v", fr.fn, re)})
			}
		}
		if s, ok := r.(string); ok {
			panic(pathAbort{"engine", fmt.Sprintf("interpreter panic in %s: %s", fr.fn, s)})
		}
		fr.panicking = true
		fr.panic = r
		fr.runDefers()
		fr.block = fr.fn.Recover
	}()

	i := fr.i
	for {
		nonPhis := executePhis(fr)
		for _, instr := range nonPhis {
			i.path.steps++
			i.curInstr, i.curFn = instr, fr.fn
			if i.path.steps > i.cfg.MaxSteps {
				panic(pathAbort{"steps", fmt.Sprintf("step bound %d exceeded in %s", i.cfg.MaxSteps, fr.fn)})
			}
			if visitInstr(fr, instr) == kReturn {
				return
			}
		}
	}
}

func executePhis(fr *frame) []ssa.Instruction {
	firstNonPhi := -1
	for j, instr := range fr.block.Instrs {
		if _, ok := instr.(*ssa.Phi); !ok {
			firstNonPhi = j
			break
		}
	}
	nonPhis := fr.block.Instrs[firstNonPhi:]
	if firstNonPhi > 0 {
		phis := fr.block.Instrs[:firstNonPhi]
		predIndex := slices.Index(fr.block.Preds, fr.prevBlock)
		fr.phitemps = fr.phitemps[:0]
		for _, phi := range phis {
			phi := phi.(*ssa.Phi)
			fr.phitemps = append(fr.phitemps, fr.get(phi.Edges[predIndex]))
		}
		for j, phi := range phis {
			fr.env[phi.(*ssa.Phi)] = fr.phitemps[j]
		}
	}
	return nonPhis
}

func doRecover(caller *frame) value {
	if caller != nil && !caller.panicking &&
		caller.caller != nil && caller.caller.panicking {
		caller.caller.panicking = false
		p := caller.caller.panic
		caller.caller.panic = nil
		switch p := p.(type) {
		case targetPanic:
			return p.v
		default:
			panic(fmt.Sprintf("unexpected panic type %T in target call to recover()", p))
		}
	}
	return iface{}
}

// ---- globals and lazy package initialisation ----

func (i *Interp) globalAddr(g *ssa.Global) *value {
	if r, ok := i.globals[g]; ok {
		return r
	}
	pkg := g.Pkg
	i.ex.buildPkg(pkg)
	// allocate all globals of the package, then run its init once.
	for _, m := range pkg.Members {
		if gv, ok := m.(*ssa.Global); ok {
			if _, ok := i.globals[gv]; !ok {
				cell := zero(deref(gv.Type()))
				i.globals[gv] = &cell
			}
		}
	}
	i.ensureInit(pkg)
	return i.globals[g]
}

// ensureInit runs pkg.init (once per worker) outside the undo log. Calls to other
// packages' init functions are skipped: those packages are initialised on first touch.
func (i *Interp) ensureInit(pkg *ssa.Package) {
	if i.pkgInit[pkg] != 0 {
		return
	}
	i.pkgInit[pkg] = 1
	initFn := pkg.Func("init")
	if initFn == nil || initFn.Blocks == nil {
		i.pkgInit[pkg] = 2
		return
	}
	savedLogging := i.logging
	savedPath := i.path
	i.logging = false
	i.initing++
	i.path = &pathState{initMode: true}
	func() {
		defer func() {
			if r := recover(); r != nil {
				i.note(fmt.Sprintf("init of %s stopped early: %v", pkg.Pkg.Path(), briefPanic(r)))
				switch r.(type) {
				case pathAbort, targetPanic:
				default:
					// a raw Go panic of the interpreter itself: this worker's view of the package is
					// unreliable, nothing found with it may be reported as a verdict
					i.ex.initFault(fmt.Sprintf("init of %s: %v", pkg.Pkg.Path(), briefPanic(r)))
				}
			}
		}()
		callSSA(i, nil, token.NoPos, initFn, nil, nil)
	}()
	i.initing--
	i.path = savedPath
	i.logging = savedLogging
	i.pkgInit[pkg] = 2
}

func briefPanic(r interface{}) string {
	switch r := r.(type) {
	case pathAbort:
		return r.kind + ": " + r.msg
	case targetPanic:
		return "panic: " + toString(r.v)
	}
	s := fmt.Sprint(r)
	if len(s) > 200 {
		s = s[:200]
	}
	return s
}

// poison marks a value that could not be computed during package init.
type poison struct{ why string }

func poisonFor(fn *ssa.Function, why string) value {
	res := fn.Signature.Results()
	switch res.Len() {
	case 0:
		return nil
	case 1:
		return poison{why}
	}
	t := make(tuple, res.Len())
	for j := range t {
		t[j] = poison{why}
	}
	return t
}
