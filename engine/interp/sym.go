package interp

// Symbolic scalars and strings.

import (
	"fmt"
	"go/token"
	"go/types"
	"math"
	"math/big"

	"verif/gosx/smt"
)

// sym is a symbolic scalar of Go basic kind k.
// Representation is given by t.Sort:
//
//	Bool                -> bool
//	BV(w)  + int kind   -> machine integer (exact wrap-around)
//	Int    + int kind   -> ranged mathematical integer with interval [lo,hi] inside the type's range
//	FP     + float kind -> IEEE float
//	BV(w)  + float kind -> float kept as its IEEE bits (moved / bit-cast only)
//	Int    + float kind -> float known to be an exact integer in [lo,hi], |.| <= 2^53
type sym struct {
	t      *smt.Term
	k      types.BasicKind
	lo, hi *big.Int
	// sc > 0 (float kinds with Int sort only): fixed point, the value is t / 2^sc with
	// [lo,hi] bounding t; |t| <= 2^53 keeps it an exact float64 (x+0.5, x/2, x*0.25 ...)
	sc uint
}

const maxFloatScale = 60

func pow2(n uint) *big.Int { return new(big.Int).Lsh(big.NewInt(1), n) }

type symstr struct {
	b []value // each uint8 or sym(Uint8)
}

func kindWidth(k types.BasicKind) int {
	switch k {
	case types.Int8, types.Uint8:
		return 8
	case types.Int16, types.Uint16:
		return 16
	case types.Int32, types.Uint32, types.Float32:
		return 32
	case types.Int, types.Uint, types.Int64, types.Uint64, types.Uintptr, types.Float64:
		return 64
	}
	panic(fmt.Sprintf("kindWidth %v", k))
}

func kindSigned(k types.BasicKind) bool {
	switch k {
	case types.Int, types.Int8, types.Int16, types.Int32, types.Int64:
		return true
	}
	return false
}

func kindIsInt(k types.BasicKind) bool {
	switch k {
	case types.Int, types.Int8, types.Int16, types.Int32, types.Int64,
		types.Uint, types.Uint8, types.Uint16, types.Uint32, types.Uint64, types.Uintptr:
		return true
	}
	return false
}

func kindIsFloat(k types.BasicKind) bool { return k == types.Float32 || k == types.Float64 }

func kindRange(k types.BasicKind) (lo, hi *big.Int) {
	w := kindWidth(k)
	if kindSigned(k) {
		hi = new(big.Int).Lsh(big.NewInt(1), uint(w-1))
		lo = new(big.Int).Neg(hi)
		hi = new(big.Int).Sub(hi, big.NewInt(1))
		return
	}
	lo = big.NewInt(0)
	hi = new(big.Int).Sub(new(big.Int).Lsh(big.NewInt(1), uint(w)), big.NewInt(1))
	return
}

// kindOfValue returns the basic kind of a concrete scalar.
func kindOfValue(v value) types.BasicKind {
	switch v.(type) {
	case bool:
		return types.Bool
	case int:
		return types.Int
	case int8:
		return types.Int8
	case int16:
		return types.Int16
	case int32:
		return types.Int32
	case int64:
		return types.Int64
	case uint:
		return types.Uint
	case uint8:
		return types.Uint8
	case uint16:
		return types.Uint16
	case uint32:
		return types.Uint32
	case uint64:
		return types.Uint64
	case uintptr:
		return types.Uintptr
	case float32:
		return types.Float32
	case float64:
		return types.Float64
	case sym:
		return v.(sym).k
	}
	return types.Invalid
}

func isSym(v value) bool {
	_, ok := v.(sym)
	return ok
}

// concrete value of kind k from raw bits (ints) .
func mkConcreteInt(k types.BasicKind, u uint64) value {
	switch k {
	case types.Int:
		return int(u)
	case types.Int8:
		return int8(u)
	case types.Int16:
		return int16(u)
	case types.Int32:
		return int32(u)
	case types.Int64:
		return int64(u)
	case types.Uint:
		return uint(u)
	case types.Uint8:
		return uint8(u)
	case types.Uint16:
		return uint16(u)
	case types.Uint32:
		return uint32(u)
	case types.Uint64:
		return u
	case types.Uintptr:
		return uintptr(u)
	case types.Bool:
		return u != 0
	case types.Float64:
		return math.Float64frombits(u)
	case types.Float32:
		return math.Float32frombits(uint32(u))
	}
	panic("mkConcreteInt")
}

func rawBits(v value) uint64 {
	switch x := v.(type) {
	case bool:
		if x {
			return 1
		}
		return 0
	case int:
		return uint64(x)
	case int8:
		return uint64(x)
	case int16:
		return uint64(x)
	case int32:
		return uint64(x)
	case int64:
		return uint64(x)
	case uint:
		return uint64(x)
	case uint8:
		return uint64(x)
	case uint16:
		return uint64(x)
	case uint32:
		return uint64(x)
	case uint64:
		return x
	case uintptr:
		return uint64(x)
	case float32:
		return uint64(math.Float32bits(x))
	case float64:
		return math.Float64bits(x)
	}
	panic(fmt.Sprintf("rawBits %T", v))
}

// simplify: a sym whose term is constant becomes concrete again.
func (i *Interp) norm(s sym) value {
	t := s.t
	if !t.IsConst() {
		return s
	}
	switch t.Sort.K {
	case smt.KBool:
		return t.U == 1
	case smt.KBV:
		if kindIsFloat(s.k) {
			return mkConcreteInt(s.k, t.U)
		}
		return mkConcreteInt(s.k, t.U)
	case smt.KInt:
		if kindIsFloat(s.k) {
			f, _ := new(big.Float).SetInt(t.Big).Float64()
			if s.sc > 0 {
				f = math.Ldexp(f, -int(s.sc))
			}
			if s.k == types.Float32 {
				return float32(f)
			}
			return f
		}
		m := new(big.Int).And(t.Big, new(big.Int).SetUint64(^uint64(0)))
		if t.Big.Sign() < 0 {
			return mkConcreteInt(s.k, uint64(t.Big.Int64()))
		}
		return mkConcreteInt(s.k, m.Uint64())
	}
	return s
}

// bvTerm returns the BV-sorted term of an integer (or bits-backed float) value.
func (i *Interp) bvTerm(v value) *smt.Term {
	c := i.ctx
	switch x := v.(type) {
	case sym:
		switch x.t.Sort.K {
		case smt.KBV:
			return x.t
		case smt.KInt:
			if kindIsFloat(x.k) {
				return i.fpToBits(i.fpTerm(x), kindWidth(x.k))
			}
			i.note("int2bv conversion (Int-mode value used in bit-vector context)")
			return c.Int2BV(x.t, kindWidth(x.k))
		case smt.KFP:
			return i.fpToBits(x.t, kindWidth(x.k))
		}
		panic("bvTerm: bad sym sort")
	}
	k := kindOfValue(v)
	return c.BVConst(rawBits(v), kindWidth(k))
}

// fpToBits: exact bit pattern of an FP term; introduces a fresh BV var constrained by to_fp(var)==t
// (NaN payload unconstrained, as SMT-LIB has a single NaN).
func (i *Interp) fpToBits(t *smt.Term, w int) *smt.Term {
	// (_ to_fp ..) applied to bits: return the bits
	if len(t.Args) == 1 && t.Args[0].Sort.K == smt.KBV && t.Args[0].Sort.W == w {
		return t.Args[0]
	}
	v := i.freshVar("fpbits", smt.BV(w))
	i.assume(i.ctx.Eq(i.ctx.FPFromBits(v), t))
	return v
}

// intTerm returns the Int-sorted term and interval of an integer value.
func (i *Interp) intTerm(v value) (*smt.Term, *big.Int, *big.Int) {
	c := i.ctx
	switch x := v.(type) {
	case sym:
		switch x.t.Sort.K {
		case smt.KInt:
			return x.t, x.lo, x.hi
		case smt.KBV:
			lo, hi := kindRange(x.k)
			i.note("bv2int conversion (bit-vector value used in Int-mode arithmetic)")
			if kindSigned(x.k) {
				return c.BV2IntSigned(x.t), lo, hi
			}
			return c.BV2Nat(x.t), lo, hi
		}
		panic("intTerm: bad sort")
	}
	k := kindOfValue(v)
	var b *big.Int
	if kindSigned(k) {
		b = big.NewInt(int64(rawBits(v)))
		w := kindWidth(k)
		if w < 64 {
			b = big.NewInt(int64(rawBits(v)<<uint(64-w)) >> uint(64-w))
		}
	} else {
		b = new(big.Int).SetUint64(rawBits(v) & ((^uint64(0)) >> uint(64-kindWidth(k))))
	}
	return c.IntConst(b), b, b
}

// fpTerm returns an FP-sorted term for a float value.
func (i *Interp) fpTerm(v value) *smt.Term {
	c := i.ctx
	switch x := v.(type) {
	case sym:
		switch x.t.Sort.K {
		case smt.KFP:
			return x.t
		case smt.KBV:
			return c.FPFromBits(x.t)
		case smt.KInt:
			s := smt.FP64
			if x.k == types.Float32 {
				s = smt.FP32
			}
			if x.sc > 0 {
				// exact: |t| <= 2^53 converts exactly and dividing by a power of two only moves the exponent
				return c.FPArith("fp.div", c.FPFromInt(x.t, s), i.fpTerm(mkFloatOfKind(x.k, math.Ldexp(1, int(x.sc)))))
			}
			return c.FPFromInt(x.t, s)
		}
	case float64:
		return c.FPFromBits(c.BVConst(math.Float64bits(x), 64))
	case float32:
		return c.FPFromBits(c.BVConst(uint64(math.Float32bits(x)), 32))
	}
	panic(fmt.Sprintf("fpTerm %T", v))
}

func (i *Interp) boolTerm(v value) *smt.Term {
	switch x := v.(type) {
	case bool:
		return i.ctx.BoolConst(x)
	case sym:
		return x.t
	}
	panic(fmt.Sprintf("boolTerm %T", v))
}

func (i *Interp) mkBool(t *smt.Term) value {
	if t.IsConst() {
		return t.U == 1
	}
	return sym{t: t, k: types.Bool}
}

func (i *Interp) mkBV(t *smt.Term, k types.BasicKind) value {
	return i.norm(sym{t: t, k: k})
}

var two53 = new(big.Int).Lsh(big.NewInt(1), 53)

// mkInt builds an Int-mode integer of kind k, wrapping if the interval leaves the type's range.
func (i *Interp) mkInt(t *smt.Term, k types.BasicKind, lo, hi *big.Int) value {
	tlo, thi := kindRange(k)
	if lo.Cmp(tlo) < 0 || hi.Cmp(thi) > 0 {
		// exact wrap: ((x - min) mod 2^w) + min
		m := new(big.Int).Lsh(big.NewInt(1), uint(kindWidth(k)))
		c := i.ctx
		t = c.IAdd(c.IMod(c.ISub(t, c.IntConst(tlo)), c.IntConst(m)), c.IntConst(tlo))
		lo, hi = tlo, thi
		i.note("Int-mode wrap-around inserted")
	}
	return i.norm(sym{t: t, k: k, lo: lo, hi: hi})
}

func isIntMode(v value) bool {
	s, ok := v.(sym)
	return ok && s.t.Sort.K == smt.KInt && kindIsInt(s.k)
}

func isFloatInt(v value) bool {
	s, ok := v.(sym)
	return ok && s.t.Sort.K == smt.KInt && kindIsFloat(s.k)
}

func bigMin(xs ...*big.Int) *big.Int {
	m := xs[0]
	for _, x := range xs[1:] {
		if x.Cmp(m) < 0 {
			m = x
		}
	}
	return m
}
func bigMax(xs ...*big.Int) *big.Int {
	m := xs[0]
	for _, x := range xs[1:] {
		if x.Cmp(m) > 0 {
			m = x
		}
	}
	return m
}

func mulInterval(alo, ahi, blo, bhi *big.Int) (*big.Int, *big.Int) {
	p := []*big.Int{new(big.Int).Mul(alo, blo), new(big.Int).Mul(alo, bhi), new(big.Int).Mul(ahi, blo), new(big.Int).Mul(ahi, bhi)}
	return bigMin(p...), bigMax(p...)
}

// symBinop handles binary operators where at least one operand is symbolic scalar.
func (i *Interp) symBinop(op token.Token, x, y value) value {
	c := i.ctx
	k := kindOfValue(x)
	if k == types.Invalid {
		k = kindOfValue(y)
	}
	switch {
	case k == types.Bool:
		a, b := i.boolTerm(x), i.boolTerm(y)
		switch op {
		case token.EQL:
			return i.mkBool(c.Eq(a, b))
		case token.NEQ:
			return i.mkBool(c.Not(c.Eq(a, b)))
		case token.AND, token.LAND:
			return i.mkBool(c.And(a, b))
		case token.OR, token.LOR:
			return i.mkBool(c.Or(a, b))
		}
	case kindIsInt(k):
		if op == token.SHL || op == token.SHR {
			return i.symShift(op, k, x, y)
		}
		if isIntMode(x) || isIntMode(y) {
			return i.intModeBinop(op, k, x, y)
		}
		a, b := i.bvTerm(x), i.bvTerm(y)
		sg := kindSigned(k)
		switch op {
		case token.ADD:
			return i.mkBV(c.BVAdd(a, b), k)
		case token.SUB:
			return i.mkBV(c.BVSub(a, b), k)
		case token.MUL:
			return i.mkBV(c.BVMul(a, b), k)
		case token.QUO, token.REM:
			i.checkDivZero(c.Eq(b, c.BVConst(0, kindWidth(k))))
			switch {
			case op == token.QUO && sg:
				return i.mkBV(c.BVSdiv(a, b), k)
			case op == token.QUO:
				return i.mkBV(c.BVUdiv(a, b), k)
			case sg:
				return i.mkBV(c.BVSrem(a, b), k)
			default:
				return i.mkBV(c.BVUrem(a, b), k)
			}
		case token.AND:
			return i.mkBV(c.BVAnd(a, b), k)
		case token.OR:
			return i.mkBV(c.BVOr(a, b), k)
		case token.XOR:
			return i.mkBV(c.BVXor(a, b), k)
		case token.AND_NOT:
			return i.mkBV(c.BVAnd(a, c.BVNot(b)), k)
		case token.EQL:
			return i.mkBool(c.Eq(a, b))
		case token.NEQ:
			return i.mkBool(c.Not(c.Eq(a, b)))
		case token.LSS:
			if sg {
				return i.mkBool(c.BVSlt(a, b))
			}
			return i.mkBool(c.BVUlt(a, b))
		case token.LEQ:
			if sg {
				return i.mkBool(c.BVSle(a, b))
			}
			return i.mkBool(c.BVUle(a, b))
		case token.GTR:
			if sg {
				return i.mkBool(c.BVSlt(b, a))
			}
			return i.mkBool(c.BVUlt(b, a))
		case token.GEQ:
			if sg {
				return i.mkBool(c.BVSle(b, a))
			}
			return i.mkBool(c.BVUle(b, a))
		}
	case kindIsFloat(k):
		return i.symFloatBinop(op, k, x, y)
	}
	panic(i.unsupported(fmt.Sprintf("symbolic binop %s on kind %v (%T,%T)", op, k, x, y)))
}

func (i *Interp) symShift(op token.Token, k types.BasicKind, x, y value) value {
	c := i.ctx
	w := kindWidth(k)
	// shift count: any integer kind. Negative signed count panics in Go.
	yk := kindOfValue(y)
	if isIntMode(x) {
		if _, ysym := y.(sym); !ysym {
			n := asUint64(widenUnsignedCount(y))
			xs := x.(sym)
			if n < 62 {
				p := new(big.Int).Lsh(big.NewInt(1), uint(n))
				if op == token.SHL {
					lo, hi := mulInterval(xs.lo, xs.hi, p, p)
					return i.mkInt(c.IMul(xs.t, c.IntConst(p)), k, lo, hi)
				}
				// floor division == arithmetic shift
				lo := new(big.Int).Div(xs.lo, p) // Euclidean == floor for positive divisor
				hi := new(big.Int).Div(xs.hi, p)
				return i.mkInt(c.IDiv(xs.t, c.IntConst(p)), k, lo, hi)
			}
		}
	}
	a := i.bvTerm(x)
	var cnt *smt.Term
	if ys, ok := y.(sym); ok {
		if kindSigned(yk) {
			yb := i.bvTerm(ys)
			neg := c.BVSlt(yb, c.BVConst(0, kindWidth(yk)))
			if i.decide(neg) {
				panic(i.runtimePanic("negative shift amount"))
			}
		}
		yb := i.bvTerm(ys)
		yw := kindWidth(yk)
		// bring count to width w, saturating
		if yw > w {
			big := c.Not(c.BVUlt(yb, c.BVConst(uint64(w), yw)))
			cnt = c.Ite(big, c.BVConst(uint64(w), w), c.Extract(w-1, 0, yb))
		} else {
			cnt = c.ZeroExt(yb, w)
		}
	} else {
		n := asUint64(widenUnsignedCount(y))
		if n > uint64(w) {
			n = uint64(w)
		}
		cnt = c.BVConst(n, w)
	}
	if op == token.SHL {
		return i.mkBV(c.BVShl(a, cnt), k)
	}
	if kindSigned(k) {
		return i.mkBV(c.BVAshr(a, cnt), k)
	}
	return i.mkBV(c.BVLshr(a, cnt), k)
}

func widenUnsignedCount(y value) value {
	if u, ok := asUnsigned(y); ok {
		return u
	}
	panic("negative shift amount")
}

func (i *Interp) checkDivZero(isZero *smt.Term) {
	if i.decide(isZero) {
		panic(i.runtimePanic("integer divide by zero"))
	}
}

func (i *Interp) intModeBinop(op token.Token, k types.BasicKind, x, y value) value {
	c := i.ctx
	a, alo, ahi := i.intTerm(x)
	b, blo, bhi := i.intTerm(y)
	switch op {
	case token.ADD:
		return i.mkInt(c.IAdd(a, b), k, new(big.Int).Add(alo, blo), new(big.Int).Add(ahi, bhi))
	case token.SUB:
		return i.mkInt(c.ISub(a, b), k, new(big.Int).Sub(alo, bhi), new(big.Int).Sub(ahi, blo))
	case token.MUL:
		lo, hi := mulInterval(alo, ahi, blo, bhi)
		return i.mkInt(c.IMul(a, b), k, lo, hi)
	case token.QUO, token.REM:
		zero := c.IntConst64(0)
		if blo.Sign() <= 0 && bhi.Sign() >= 0 {
			i.checkDivZero(c.Eq(b, zero))
		}
		// truncated quotient
		var q *smt.Term
		if alo.Sign() >= 0 {
			q = c.IDiv(a, b)
		} else if ahi.Sign() <= 0 {
			q = c.INeg(c.IDiv(c.INeg(a), b))
		} else {
			q = c.Ite(c.ILe(zero, a), c.IDiv(a, b), c.INeg(c.IDiv(c.INeg(a), b)))
		}
		m := bigMax(new(big.Int).Abs(alo), new(big.Int).Abs(ahi))
		if op == token.QUO {
			return i.mkInt(q, k, new(big.Int).Neg(m), m)
		}
		r := c.ISub(a, c.IMul(b, q))
		// |r| < |b|, sign of a
		bm := bigMax(new(big.Int).Abs(blo), new(big.Int).Abs(bhi))
		bm = new(big.Int).Sub(bm, big.NewInt(1))
		if bm.Cmp(m) > 0 {
			bm = m
		}
		lo, hi := new(big.Int).Neg(bm), bm
		if alo.Sign() >= 0 {
			lo = big.NewInt(0)
		}
		if ahi.Sign() <= 0 {
			hi = big.NewInt(0)
		}
		return i.mkInt(r, k, lo, hi)
	case token.EQL:
		return i.mkBool(c.Eq(a, b))
	case token.NEQ:
		return i.mkBool(c.Not(c.Eq(a, b)))
	case token.LSS:
		return i.mkBool(c.ILt(a, b))
	case token.LEQ:
		return i.mkBool(c.ILe(a, b))
	case token.GTR:
		return i.mkBool(c.ILt(b, a))
	case token.GEQ:
		return i.mkBool(c.ILe(b, a))
	case token.AND:
		// x & (2^n - 1) with x >= 0
		if yc, ok := y.(sym); !ok || yc.t.IsConst() {
			if blo.Cmp(bhi) == 0 && blo.Sign() >= 0 && alo.Sign() >= 0 {
				p := new(big.Int).Add(blo, big.NewInt(1))
				if new(big.Int).And(p, blo).Sign() == 0 { // mask+1 power of two
					return i.mkInt(c.IMod(a, c.IntConst(p)), k, big.NewInt(0), bigMin(ahi, blo))
				}
			}
		}
	}
	// fall back to bit-vectors
	xa, yb := i.bvTerm(x), i.bvTerm(y)
	return i.symBinop(op, sym{t: xa, k: k}, sym{t: yb, k: k})
}

func (i *Interp) floatSort(k types.BasicKind) smt.Sort {
	if k == types.Float32 {
		return smt.FP32
	}
	return smt.FP64
}

func (i *Interp) symFloatBinop(op token.Token, k types.BasicKind, x, y value) value {
	c := i.ctx
	// exact-integer fast path
	xi, yi := floatAsInt(x), floatAsInt(y)
	if xi != nil && yi != nil && (isFloatInt(x) || isFloatInt(y)) {
		if xi.t == nil {
			xi.t = c.IntConst(xi.lo)
		}
		if yi.t == nil {
			yi.t = c.IntConst(yi.lo)
		}
		var rsc uint
		var quoExact *smt.Term
		var quoM *big.Int
		switch op {
		case token.MUL:
			rsc = xi.sc + yi.sc
			// multiplying a fixed-point value by a concrete 2^e only moves the binary point
			for _, pr := range [][2]*sym{{xi, yi}, {yi, xi}} {
				a, b := pr[0], pr[1]
				if b.sc == 0 && b.lo.Cmp(b.hi) == 0 && b.lo.Sign() > 0 && a.sc > 0 {
					if e := uint(b.lo.BitLen() - 1); pow2(e).Cmp(b.lo) == 0 && e <= a.sc {
						return i.norm(sym{t: a.t, k: k, lo: a.lo, hi: a.hi, sc: a.sc - e})
					}
				}
			}
		case token.QUO:
			// division by a concrete power of two only moves the binary point
			rsc = maxFloatScale + 1
			if yc, ok := y.(float64); ok && yi.sc == 0 && yc > 0 {
				if fr, e := math.Frexp(yc); fr == 0.5 && e >= 2 && e <= 12 {
					rsc = xi.sc + uint(e-1)
				} else if q, ok := c.ExactQuot(xi.t, yi.lo); ok {
					// dividend is syntactically a multiple of the concrete divisor (sum*count/total
					// with count a multiple of total): the IEEE quotient of two integers whose
					// ratio is an integer is that integer
					quoExact, quoM, rsc = q, yi.lo, xi.sc
				}
			}
		default:
			i.alignScales(xi, yi)
			rsc = xi.sc
		}
		a, alo, ahi := xi.t, xi.lo, xi.hi
		b, blo, bhi := yi.t, yi.lo, yi.hi
		mk := func(t *smt.Term, lo, hi *big.Int) value {
			if rsc > maxFloatScale || new(big.Int).Abs(lo).Cmp(two53) > 0 || new(big.Int).Abs(hi).Cmp(two53) > 0 {
				return nil
			}
			return i.norm(sym{t: t, k: k, lo: lo, hi: hi, sc: rsc})
		}
		var r value
		switch op {
		case token.ADD:
			r = mk(c.IAdd(a, b), new(big.Int).Add(alo, blo), new(big.Int).Add(ahi, bhi))
		case token.SUB:
			r = mk(c.ISub(a, b), new(big.Int).Sub(alo, bhi), new(big.Int).Sub(ahi, blo))
		case token.MUL:
			lo, hi := mulInterval(alo, ahi, blo, bhi)
			r = mk(c.IMul(a, b), lo, hi)
		case token.QUO:
			r = mk(a, alo, ahi)
			if quoExact != nil {
				r = i.norm(sym{t: quoExact, k: k, lo: new(big.Int).Div(alo, quoM), hi: new(big.Int).Add(new(big.Int).Div(ahi, quoM), big.NewInt(1)), sc: xi.sc})
			}
		case token.EQL:
			return i.mkBool(c.Eq(a, b))
		case token.NEQ:
			return i.mkBool(c.Not(c.Eq(a, b)))
		case token.LSS:
			return i.mkBool(c.ILt(a, b))
		case token.LEQ:
			return i.mkBool(c.ILe(a, b))
		case token.GTR:
			return i.mkBool(c.ILt(b, a))
		case token.GEQ:
			return i.mkBool(c.ILe(b, a))
		}
		if r != nil {
			return r
		}
		if op == token.ADD || op == token.SUB || op == token.MUL {
			i.note("exact-integer float left the +-2^53 range; falling back to FP theory")
		}
	}
	if r, ok := i.cmpFixedWithConst(op, x, y); ok {
		return r
	}
	if i.cfg != nil && i.cfg.FloatUF {
		switch op {
		case token.ADD, token.SUB, token.MUL, token.QUO:
			name := map[token.Token]string{token.ADD: "fadd", token.SUB: "fsub", token.MUL: "fmul", token.QUO: "fdiv"}[op]
			if k == types.Float32 {
				name += "32"
			}
			// both operands exact integers (float64(int) conversions): the function takes the integers
			// themselves, no Int->FP conversion term (to_fp of to_real stalls z3)
			if xi, yi := floatAsInt(x), floatAsInt(y); xi != nil && yi != nil && xi.sc == 0 && yi.sc == 0 {
				if xi.t == nil {
					xi.t = c.IntConst(xi.lo)
				}
				if yi.t == nil {
					yi.t = c.IntConst(yi.lo)
				}
				uname := name + "I"
				if op == token.QUO && k == types.Float64 && intervalWithin(xi, 24) && intervalWithin(yi, 24) {
					// both below 2^24: int(a/b) can be computed exactly from a and b (see symConv)
					uname = name + "Is"
				}
				r := c.UF(uname, i.floatSort(k), xi.t, yi.t)
				// IEEE: an operation on finite numbers is NaN only for 0/0
				nan := c.FPPred("fp.isNaN", r)
				if op == token.QUO {
					i.assume(c.Or(c.And(c.Eq(xi.t, c.IntConst64(0)), c.Eq(yi.t, c.IntConst64(0))), c.Not(nan)))
				} else {
					i.assume(c.Not(nan))
				}
				return sym{t: r, k: k}
			}
			// an exact-integer / fixed-point operand enters the function as its integer (the scale goes
			// into the function name): no Int->FP conversion term
			argOf := func(v value) (*smt.Term, string) {
				if fi := floatAsInt(v); fi != nil && isSym(v) {
					return fi.t, fmt.Sprintf("_i%d", fi.sc)
				}
				return i.fpTerm(v), "_f"
			}
			a, sa := argOf(x)
			b, sb := argOf(y)
			if (op == token.ADD || op == token.MUL) && (sa > sb || (sa == sb && a.ID > b.ID)) {
				a, b, sa, sb = b, a, sb, sa // commutativity
			}
			if sa != "_f" || sb != "_f" {
				name += sa + sb
			}
			r := c.UF(name, i.floatSort(k), a, b)
			// a NaN result needs a NaN operand, or inf-inf, 0*inf, 0/0, inf/inf: with one concrete
			// finite non-zero operand of * or / only a NaN other operand can produce it (inf*c = inf)
			if op == token.MUL || op == token.QUO {
				for _, pr := range [][2]value{{x, y}, {y, x}} {
					if cv, ok := pr[1].(float64); ok && cv != 0 && !math.IsInf(cv, 0) && !math.IsNaN(cv) {
						if fi := floatAsInt(pr[0]); fi != nil {
							i.assume(c.Not(c.FPPred("fp.isNaN", r))) // finite * finite
						} else {
							o := i.fpTerm(pr[0])
							i.assume(c.Or(c.FPPred("fp.isNaN", o), c.Not(c.FPPred("fp.isNaN", r))))
						}
					}
				}
			}
			return sym{t: r, k: k}
		}
	}
	a, b := i.fpTerm(x), i.fpTerm(y)
	switch op {
	case token.ADD:
		return sym{t: c.FPArith("fp.add", a, b), k: k}
	case token.SUB:
		return sym{t: c.FPArith("fp.sub", a, b), k: k}
	case token.MUL:
		return sym{t: c.FPArith("fp.mul", a, b), k: k}
	case token.QUO:
		return sym{t: c.FPArith("fp.div", a, b), k: k}
	case token.EQL:
		return i.mkBool(c.FPCmp("fp.eq", a, b))
	case token.NEQ:
		return i.mkBool(c.Not(c.FPCmp("fp.eq", a, b)))
	case token.LSS:
		return i.mkBool(c.FPCmp("fp.lt", a, b))
	case token.LEQ:
		return i.mkBool(c.FPCmp("fp.leq", a, b))
	case token.GTR:
		return i.mkBool(c.FPCmp("fp.gt", a, b))
	case token.GEQ:
		return i.mkBool(c.FPCmp("fp.geq", a, b))
	}
	panic(i.unsupported(fmt.Sprintf("symbolic float binop %s", op)))
}

// fixRound rounds a fixed-point float (sc > 0) to an integer-valued one (sc = 0).
func (i *Interp) fixRound(x sym, mode string) sym {
	c := i.ctx
	m := pow2(x.sc)
	mt := c.IntConst(m)
	fl := func(t *smt.Term) *smt.Term { return c.IDiv(t, mt) } // SMT div with positive divisor = floor
	ce := func(t *smt.Term) *smt.Term { return c.INeg(c.IDiv(c.INeg(t), mt)) }
	bfl := func(b *big.Int) *big.Int { return new(big.Int).Div(b, m) } // Euclidean = floor for m > 0
	bce := func(b *big.Int) *big.Int { return new(big.Int).Neg(new(big.Int).Div(new(big.Int).Neg(b), m)) }
	switch mode {
	case "RTN":
		return sym{t: fl(x.t), k: x.k, lo: bfl(x.lo), hi: bfl(x.hi)}
	case "RTP":
		return sym{t: ce(x.t), k: x.k, lo: bce(x.lo), hi: bce(x.hi)}
	default: // RTZ
		return sym{t: c.Ite(c.ILt(x.t, c.IntConst64(0)), ce(x.t), fl(x.t)), k: x.k, lo: bfl(x.lo), hi: bce(x.hi)}
	}
}

// cmpFixedWithConst decides a comparison between an exact-integer / fixed-point float and an
// arbitrary concrete float (MaxFloat32, 0.3, +Inf, NaN ...) in integer arithmetic:
// t/2^sc < c  <=>  t < ceil(c*2^sc), and so on. Exact, no FP theory needed.
func (i *Interp) cmpFixedWithConst(op token.Token, x, y value) (value, bool) {
	switch op {
	case token.EQL, token.NEQ, token.LSS, token.LEQ, token.GTR, token.GEQ:
	default:
		return nil, false
	}
	xs, xok := x.(sym)
	ys, yok := y.(sym)
	var s sym
	var cv float64
	swapped := false
	switch {
	case xok && xs.t.Sort.K == smt.KInt && kindIsFloat(xs.k) && !yok:
		s = xs
		switch c := y.(type) {
		case float64:
			cv = c
		case float32:
			cv = float64(c)
		default:
			return nil, false
		}
	case yok && ys.t.Sort.K == smt.KInt && kindIsFloat(ys.k) && !xok:
		s = ys
		swapped = true
		switch c := x.(type) {
		case float64:
			cv = c
		case float32:
			cv = float64(c)
		default:
			return nil, false
		}
	default:
		return nil, false
	}
	if swapped { // c OP s  ==  s OP' c
		op = map[token.Token]token.Token{token.EQL: token.EQL, token.NEQ: token.NEQ, token.LSS: token.GTR, token.LEQ: token.GEQ, token.GTR: token.LSS, token.GEQ: token.LEQ}[op]
	}
	if math.IsNaN(cv) {
		return op == token.NEQ, true
	}
	if math.IsInf(cv, 1) {
		return op == token.LSS || op == token.LEQ || op == token.NEQ, true
	}
	if math.IsInf(cv, -1) {
		return op == token.GTR || op == token.GEQ || op == token.NEQ, true
	}
	bf := new(big.Float).SetPrec(2200).SetFloat64(cv)
	bf.SetMantExp(bf, int(s.sc)) // c * 2^sc, exact
	fl, acc := bf.Int(nil)       // truncation toward zero
	isInt := acc == big.Exact
	if !isInt && bf.Sign() < 0 {
		fl.Sub(fl, big.NewInt(1)) // floor for negatives
	}
	ce := new(big.Int).Set(fl)
	if !isInt {
		ce.Add(ce, big.NewInt(1))
	}
	c := i.ctx
	t := s.t
	switch op {
	case token.EQL:
		if !isInt {
			return false, true
		}
		return i.mkBool(c.Eq(t, c.IntConst(fl))), true
	case token.NEQ:
		if !isInt {
			return true, true
		}
		return i.mkBool(c.Not(c.Eq(t, c.IntConst(fl)))), true
	case token.LSS:
		return i.mkBool(c.ILt(t, c.IntConst(ce))), true
	case token.LEQ:
		return i.mkBool(c.ILe(t, c.IntConst(fl))), true
	case token.GTR:
		return i.mkBool(c.ILt(c.IntConst(fl), t)), true
	case token.GEQ:
		return i.mkBool(c.ILe(c.IntConst(ce), t)), true
	}
	return nil, false
}

func intervalWithin(s *sym, bits uint) bool {
	lim := pow2(bits)
	return new(big.Int).Abs(s.lo).Cmp(lim) <= 0 && new(big.Int).Abs(s.hi).Cmp(lim) <= 0
}

func (i *Interp) nondetOfKind(k types.BasicKind) value {
	return sym{t: i.freshVar("unspec", smt.BV(kindWidth(k))), k: k}
}

func mkFloatOfKind(k types.BasicKind, f float64) value {
	if k == types.Float32 {
		return float32(f)
	}
	return f
}

// alignScales brings two fixed-point views to a common scale (the larger one).
func (i *Interp) alignScales(x, y *sym) {
	c := i.ctx
	if x.t == nil {
		x.t = c.IntConst(x.lo)
	}
	if y.t == nil {
		y.t = c.IntConst(y.lo)
	}
	up := func(a *sym, d uint) {
		m := pow2(d)
		a.t = c.IMul(a.t, c.IntConst(m))
		a.lo, a.hi = new(big.Int).Mul(a.lo, m), new(big.Int).Mul(a.hi, m)
		a.sc += d
	}
	if x.sc < y.sc {
		up(x, y.sc-x.sc)
	} else if y.sc < x.sc {
		up(y, x.sc-y.sc)
	}
}

// floatAsInt: view a float value as exact integer sym if possible (concrete integral floats too).
func floatAsInt(v value) *sym {
	switch x := v.(type) {
	case sym:
		if x.t.Sort.K == smt.KInt {
			return &x
		}
	case float64:
		if x == math.Trunc(x) && math.Abs(x) <= 1<<53 && !(x == 0 && math.Signbit(x)) {
			b, _ := big.NewFloat(x).Int(nil)
			return &sym{t: nil, k: types.Float64, lo: b, hi: b}
		}
		// dyadic rational with a small denominator (0.5, 0.25, 1.5 ...)
		if !math.IsInf(x, 0) && !math.IsNaN(x) && math.Abs(x) < 1<<20 {
			for sc := uint(1); sc <= 10; sc++ {
				y := math.Ldexp(x, int(sc))
				if y == math.Trunc(y) {
					b, _ := big.NewFloat(y).Int(nil)
					return &sym{t: nil, k: types.Float64, lo: b, hi: b, sc: sc}
				}
			}
		}
	case float32:
		f := float64(x)
		if f == math.Trunc(f) && math.Abs(f) <= 1<<24 && !(f == 0 && math.Signbit(f)) {
			b, _ := big.NewFloat(f).Int(nil)
			return &sym{t: nil, k: types.Float32, lo: b, hi: b}
		}
	}
	return nil
}

func (i *Interp) symUnop(op token.Token, x sym) value {
	c := i.ctx
	switch op {
	case token.NOT:
		return i.mkBool(c.Not(x.t))
	case token.SUB:
		if kindIsFloat(x.k) {
			switch x.t.Sort.K {
			case smt.KInt:
				return i.norm(sym{t: c.INeg(x.t), k: x.k, lo: new(big.Int).Neg(x.hi), hi: new(big.Int).Neg(x.lo), sc: x.sc})
			case smt.KBV:
				w := kindWidth(x.k)
				return i.norm(sym{t: c.BVXor(x.t, c.BVConst(1<<uint(w-1), w)), k: x.k})
			}
			return sym{t: c.FPUn("fp.neg", x.t), k: x.k}
		}
		if x.t.Sort.K == smt.KInt {
			return i.mkInt(c.INeg(x.t), x.k, new(big.Int).Neg(x.hi), new(big.Int).Neg(x.lo))
		}
		return i.mkBV(c.BVNeg(x.t), x.k)
	case token.XOR:
		return i.mkBV(c.BVNot(i.bvTerm(x)), x.k)
	}
	panic(i.unsupported("symbolic unop " + op.String()))
}

// symConv converts symbolic scalar x to basic kind dst.
func (i *Interp) symConv(dst types.BasicKind, x sym) value {
	c := i.ctx
	src := x.k
	switch {
	case kindIsInt(src) && kindIsInt(dst):
		if x.t.Sort.K == smt.KInt {
			return i.mkInt(x.t, dst, x.lo, x.hi)
		}
		ws, wd := kindWidth(src), kindWidth(dst)
		switch {
		case wd == ws:
			return i.mkBV(x.t, dst)
		case wd < ws:
			return i.mkBV(c.Extract(wd-1, 0, x.t), dst)
		case kindSigned(src):
			return i.mkBV(c.SignExt(x.t, wd), dst)
		default:
			return i.mkBV(c.ZeroExt(x.t, wd), dst)
		}
	case kindIsInt(src) && kindIsFloat(dst):
		if x.t.Sort.K == smt.KInt {
			lim := two53
			if dst == types.Float32 {
				lim = new(big.Int).Lsh(big.NewInt(1), 24)
			}
			if new(big.Int).Abs(x.lo).Cmp(lim) <= 0 && new(big.Int).Abs(x.hi).Cmp(lim) <= 0 {
				return i.norm(sym{t: x.t, k: dst, lo: x.lo, hi: x.hi})
			}
			return sym{t: c.FPFromInt(x.t, i.floatSort(dst)), k: dst}
		}
		return sym{t: c.FPFromSBV(x.t, i.floatSort(dst), kindSigned(src)), k: dst}
	case kindIsFloat(src) && kindIsInt(dst):
		if x.t.Op == "uf:fdivIs" {
			// int(float64(a)/float64(b)) for |a|,|b| <= 2^24: the real quotient is an integer or at
			// least 1/|b| >= 2^-24 away from one, the correctly rounded double is within 2^-29 of it,
			// so truncation gives trunc(a/b). b == 0 (Inf/NaN -> int) is unspecified in Go: fresh value.
			a, b := x.t.Args[0], x.t.Args[1]
			zero := c.IntConst64(0)
			abs := func(t *smt.Term) *smt.Term { return c.Ite(c.ILt(t, zero), c.INeg(t), t) }
			q := c.IDiv(abs(a), abs(b))
			neg := c.Xor(c.ILt(a, zero), c.ILt(b, zero))
			q = c.Ite(neg, c.INeg(q), q)
			lim := pow2(24)
			if !i.decide(c.Not(c.Eq(b, zero))) {
				return i.nondetOfKind(dst)
			}
			return i.mkInt(q, dst, new(big.Int).Neg(lim), lim)
		}
		if x.t.Sort.K == smt.KInt {
			if x.sc > 0 {
				r := i.fixRound(x, "RTZ")
				return i.mkInt(r.t, dst, r.lo, r.hi)
			}
			return i.mkInt(x.t, dst, x.lo, x.hi)
		}
		i.note("float->int conversion encoded with fp.to_sbv/ubv (out-of-range results are unspecified in Go)")
		return i.mkBV(c.FPToBV(i.fpTerm(x), kindWidth(dst), kindSigned(dst)), dst)
	case kindIsFloat(src) && kindIsFloat(dst):
		if src == dst {
			return x
		}
		if x.t.Sort.K == smt.KInt {
			if dst == types.Float64 {
				return sym{t: x.t, k: dst, lo: x.lo, hi: x.hi, sc: x.sc}
			}
			lim := new(big.Int).Lsh(big.NewInt(1), 24)
			if new(big.Int).Abs(x.lo).Cmp(lim) <= 0 && new(big.Int).Abs(x.hi).Cmp(lim) <= 0 {
				return sym{t: x.t, k: dst, lo: x.lo, hi: x.hi, sc: x.sc}
			}
		}
		return sym{t: c.FPConvFP(i.fpTerm(x), i.floatSort(dst)), k: dst}
	}
	panic(i.unsupported(fmt.Sprintf("symbolic conversion %v -> %v", src, dst)))
}

// toSymTerm converts any scalar value to a term in its natural sort (used for ite merging / equality).
func (i *Interp) scalarTerm(v value) (*smt.Term, types.BasicKind) {
	k := kindOfValue(v)
	switch {
	case k == types.Bool:
		return i.boolTerm(v), k
	case kindIsInt(k):
		if isIntMode(v) {
			t, _, _ := i.intTerm(v)
			return t, k
		}
		return i.bvTerm(v), k
	case kindIsFloat(k):
		if s, ok := v.(sym); ok && s.t.Sort.K != smt.KFP && s.sc == 0 {
			return s.t, k
		}
		return i.fpTerm(v), k
	}
	panic(fmt.Sprintf("scalarTerm %T", v))
}

// iteValue merges two values of the same static type under condition c. ok=false if not mergeable.
func (i *Interp) iteValue(cond *smt.Term, a, b value) (value, bool) {
	if cond.IsTrue() {
		return a, true
	}
	if cond.IsFalse() {
		return b, true
	}
	switch av := a.(type) {
	case structure:
		bv := b.(structure)
		out := make(structure, len(av))
		for j := range av {
			m, ok := i.iteValue(cond, av[j], bv[j])
			if !ok {
				return nil, false
			}
			out[j] = m
		}
		return out, true
	case array:
		bv := b.(array)
		out := make(array, len(av))
		for j := range av {
			m, ok := i.iteValue(cond, av[j], bv[j])
			if !ok {
				return nil, false
			}
			out[j] = m
		}
		return out, true
	}
	ka, kb := kindOfValue(a), kindOfValue(b)
	if ka != types.Invalid && ka == kb {
		if !isSym(a) && !isSym(b) {
			if rawBits(a) == rawBits(b) {
				return a, true
			}
		}
		c := i.ctx
		switch {
		case ka == types.Bool:
			return i.mkBool(c.Ite(cond, i.boolTerm(a), i.boolTerm(b))), true
		case kindIsInt(ka):
			if isIntMode(a) || isIntMode(b) {
				ta, alo, ahi := i.intTerm(a)
				tb, blo, bhi := i.intTerm(b)
				return i.norm(sym{t: c.Ite(cond, ta, tb), k: ka, lo: bigMin(alo, blo), hi: bigMax(ahi, bhi)}), true
			}
			return i.mkBV(c.Ite(cond, i.bvTerm(a), i.bvTerm(b)), ka), true
		case kindIsFloat(ka):
			ai, bi := floatAsInt(a), floatAsInt(b)
			if ai != nil && bi != nil && (isFloatInt(a) || isFloatInt(b)) {
				i.alignScales(ai, bi)
				ta, tb := ai.t, bi.t
				return i.norm(sym{t: c.Ite(cond, ta, tb), k: ka, lo: bigMin(ai.lo, bi.lo), hi: bigMax(ai.hi, bi.hi), sc: ai.sc}), true
			}
			// bits-backed both?
			if bitsBacked(a) && bitsBacked(b) {
				return i.norm(sym{t: c.Ite(cond, i.bvTerm(a), i.bvTerm(b)), k: ka}), true
			}
			return sym{t: c.Ite(cond, i.fpTerm(a), i.fpTerm(b)), k: ka}, true
		}
	}
	// strings of equal length
	if la, ok := strLen(a); ok {
		if lb, ok2 := strLen(b); ok2 && la == lb {
			out := make([]value, la)
			for j := 0; j < la; j++ {
				m, _ := i.iteValue(cond, strByte(a, j), strByte(b, j))
				out[j] = m
			}
			return i.mkStr(out), true
		}
		return nil, false
	}
	// identical non-scalar values
	if sameValueIdentity(a, b) {
		return a, true
	}
	return nil, false
}

func bitsBacked(v value) bool {
	switch x := v.(type) {
	case float32, float64:
		return true
	case sym:
		return x.t.Sort.K == smt.KBV
	}
	return false
}

// ---------- strings ----------

func strLen(v value) (int, bool) {
	switch x := v.(type) {
	case string:
		return len(x), true
	case symstr:
		return len(x.b), true
	}
	return 0, false
}

func strByte(v value, j int) value {
	switch x := v.(type) {
	case string:
		return x[j]
	case symstr:
		return x.b[j]
	}
	panic("strByte")
}

func strBytes(v value) []value {
	switch x := v.(type) {
	case string:
		out := make([]value, len(x))
		for j := 0; j < len(x); j++ {
			out[j] = x[j]
		}
		return out
	case symstr:
		return x.b
	}
	panic(fmt.Sprintf("strBytes %T", v))
}

// mkStr builds a string value from bytes (concrete string if all bytes are concrete).
func (i *Interp) mkStr(b []value) value {
	conc := true
	for _, e := range b {
		if _, ok := e.(uint8); !ok {
			conc = false
			break
		}
	}
	if conc {
		bs := make([]byte, len(b))
		for j, e := range b {
			bs[j] = e.(uint8)
		}
		return string(bs)
	}
	cp := make([]value, len(b))
	copy(cp, b)
	return symstr{b: cp}
}

func (i *Interp) strEq(a, b value) *smt.Term {
	la, _ := strLen(a)
	lb, _ := strLen(b)
	if la != lb {
		return i.ctx.F
	}
	r := i.ctx.T
	for j := 0; j < la; j++ {
		r = i.ctx.And(r, i.ctx.Eq(i.bvTerm(strByte(a, j)), i.bvTerm(strByte(b, j))))
		if r.IsFalse() {
			return r
		}
	}
	return r
}

// strLess: lexicographic a < b
func (i *Interp) strLess(a, b value) *smt.Term {
	c := i.ctx
	la, _ := strLen(a)
	lb, _ := strLen(b)
	n := la
	if lb < n {
		n = lb
	}
	// build from the end
	r := c.BoolConst(la < lb)
	for j := n - 1; j >= 0; j-- {
		x, y := i.bvTerm(strByte(a, j)), i.bvTerm(strByte(b, j))
		r = c.Ite(c.Eq(x, y), r, c.BVUlt(x, y))
	}
	return r
}

func (i *Interp) symStrBinop(op token.Token, x, y value) value {
	c := i.ctx
	switch op {
	case token.ADD:
		return i.mkStr(append(append([]value{}, strBytes(x)...), strBytes(y)...))
	case token.EQL:
		return i.mkBool(i.strEq(x, y))
	case token.NEQ:
		return i.mkBool(c.Not(i.strEq(x, y)))
	case token.LSS:
		return i.mkBool(i.strLess(x, y))
	case token.GTR:
		return i.mkBool(i.strLess(y, x))
	case token.LEQ:
		return i.mkBool(c.Not(i.strLess(y, x)))
	case token.GEQ:
		return i.mkBool(c.Not(i.strLess(x, y)))
	}
	panic(i.unsupported("symbolic string op " + op.String()))
}

// equalsV is Go's == for type t, returning bool or sym Bool.
func (i *Interp) equalsV(t types.Type, x, y value) value {
	return i.mkBool(i.equalsT(t, x, y))
}

func (i *Interp) equalsT(t types.Type, x, y value) *smt.Term {
	c := i.ctx
	switch xv := x.(type) {
	case sym:
		return i.boolTerm(i.symBinop(token.EQL, x, y))
	case symstr:
		return i.strEq(x, y)
	case string:
		if _, ok := y.(symstr); ok {
			return i.strEq(x, y)
		}
		return c.BoolConst(xv == y.(string))
	case structure:
		yv := y.(structure)
		st := t.Underlying().(*types.Struct)
		r := c.T
		for j := 0; j < st.NumFields(); j++ {
			if st.Field(j).Name() == "_" {
				continue
			}
			r = c.And(r, i.equalsT(st.Field(j).Type(), xv[j], yv[j]))
			if r.IsFalse() {
				return r
			}
		}
		return r
	case array:
		yv := y.(array)
		et := t.Underlying().(*types.Array).Elem()
		r := c.T
		for j := range xv {
			r = c.And(r, i.equalsT(et, xv[j], yv[j]))
			if r.IsFalse() {
				return r
			}
		}
		return r
	case iface:
		yv := y.(iface)
		if xv.t == nil || yv.t == nil {
			return c.BoolConst(xv.t == nil && yv.t == nil)
		}
		if !types.Identical(xv.t, yv.t) {
			return c.F
		}
		if !types.Comparable(xv.t) {
			panic(i.runtimePanic("comparing uncomparable type " + xv.t.String()))
		}
		return i.equalsT(xv.t, xv.v, yv.v)
	}
	if isSym(y) {
		return i.boolTerm(i.symBinop(token.EQL, x, y))
	}
	return c.BoolConst(equals(t, x, y))
}
