package interp

// Path exploration by decision-prefix replay.

import (
	"math"
	"encoding/json"
	"fmt"
	"go/token"
	"go/types"
	"math/big"
	"os"
	"sort"
	"strings"
	"sync"
	"time"

	"golang.org/x/tools/go/packages"
	"golang.org/x/tools/go/ssa"

	"verif/gosx/smt"
)

// Config is the per-harness configuration (bounds, stubs).
type Config struct {
	Harness       string            `json:"harness"`
	Unwind        int               `json:"unwind"`          // max symbolic decisions at one branch per activation
	MaxSteps      int               `json:"max_steps"`       // instructions per path
	MaxDepth      int               `json:"max_depth"`       // call depth
	MaxPaths      int               `json:"max_paths"`       // exploration budget
	MaxIte        int               `json:"max_ite"`         // largest table turned into an ite chain
	MaxConcretize int               `json:"max_concretize"`  // values enumerated per concretisation
	MapPermMax    int               `json:"map_perm_max"`    // maps up to this size iterate in every order
	MaxAllocBytes int64             `json:"max_alloc_bytes"` // allocations above are fatal (out of memory)
	SolverTimeout int               `json:"solver_timeout_ms"`
	FloatUF       bool              `json:"float_uf"` // general float + - * / as uninterpreted functions
	Stubs         map[string]string `json:"stubs"`    // function -> noop | nondet | uf | model:<func> | panic
	Workers       int               `json:"workers"`
	TimeBudgetS   int               `json:"time_budget_s"`
	ExpectPanic   bool              `json:"expect_panic"` // target panics reaching the top are not violations
	MaxSwitches   int               `json:"max_switches"`
	MaxGoroutines int               `json:"max_goroutines"`
	// ConcretizeIndex: a symbolic slice index is case-split into its feasible values instead of
	// becoming conditional loads/stores (better for hash tables whose code branches on cell contents)
	ConcretizeIndex bool `json:"concretize_index"`
	// MaxRandDraws > 0: a path that takes more random draws ends there as "bound-cut" (a stated bound,
	// e.g. string-top resampling repeats until a draw evicts a key: probability-one termination only)
	MaxRandDraws int `json:"max_rand_draws"`
	// YieldOnRelease: also switch goroutines right after Unlock / Signal / Broadcast (off: partial-order reduction)
	YieldOnRelease bool `json:"yield_on_release"`
}

func (c *Config) defaults() {
	if c.Unwind == 0 {
		c.Unwind = 16
	}
	if c.MaxSteps == 0 {
		c.MaxSteps = 2000000
	}
	if c.MaxDepth == 0 {
		c.MaxDepth = 200
	}
	if c.MaxPaths == 0 {
		c.MaxPaths = 200000
	}
	if c.MaxIte == 0 {
		c.MaxIte = 300
	}
	if c.MaxConcretize == 0 {
		c.MaxConcretize = 64
	}
	if c.MaxAllocBytes == 0 {
		c.MaxAllocBytes = 1 << 36
	}
	if c.SolverTimeout == 0 {
		c.SolverTimeout = 20000
	}
	if c.MaxSwitches == 0 {
		c.MaxSwitches = 200
	}
	if c.MaxGoroutines == 0 {
		c.MaxGoroutines = 6
	}
	if c.Workers == 0 {
		c.Workers = 16
	}
}

func (c *Config) stubFor(name string) (string, bool) {
	if c.Stubs == nil {
		return "", false
	}
	s, ok := c.Stubs[name]
	return s, ok
}

type Decision struct {
	Taken  bool  `json:"t"`
	Cand   int64 `json:"c,omitempty"`
	Forced bool  `json:"f,omitempty"`
}

type nondetVar struct {
	Name string
	Kind string // "u8", "i64", "bool", "int", "f64bits", ...
	t    *smt.Term
	fix  uint // > 0: Int-sorted k standing for the float64 k / 2^fix; the tape gets the float's bits
}

// TapeEntry is one nondet value for native replay.
type TapeEntry struct {
	Kind string `json:"k"`
	Name string `json:"n,omitempty"`
	V    string `json:"v"` // decimal (ints) / "true","false"
}

type Violation struct {
	Harness  string      `json:"harness"`
	Assert   string      `json:"assert"`
	Kind     string      `json:"kind"` // "assert", "panic"
	Msg      string      `json:"msg"`
	Tape     []TapeEntry `json:"tape"`
	Prefix   []Decision  `json:"decisions"`
	Observed []string    `json:"observed,omitempty"`
	Known    string      `json:"known,omitempty"` // known-finding shape active on this path
}

// KnownShapes lists the known-finding shapes (from known_findings.json) for the running check.
var KnownShapes = map[string]bool{}

type pathState struct {
	prefix    []Decision
	decisions []Decision
	k         int // decisions shared with the previous path on this worker (-1: nothing retained)
	steps     int
	nondets   []nondetVar
	initMode  bool
	fresh     bool // past the prefix: events count
	reached   []string
	observed  []string
	unknowns  int
	nfresh    int
	asserted  int // assertion checks performed
	nvars     int
	randDraws int
	known     string
	conds     map[*value]*condState
	wgs       map[*value]*wgState
}

type PathResult struct {
	Outcome  string // "ok", "infeasible", "unsupported", "unwind", "steps", "panic", "engine", "assume-end"
	Msg      string
	Reached  []string
	NDec     int
	Steps    int
	Tape     []TapeEntry
	Prefix   []Decision
	Observed []string
}

// Explorer coordinates workers for one harness.
type Explorer struct {
	Prog    *ssa.Program
	Pkgs    []*packages.Package
	Cfg     *Config
	Fn      *ssa.Function
	Sizes   types.Sizes
	buildMu sync.Mutex
	built   map[*ssa.Package]bool

	mu         sync.Mutex
	cond       *sync.Cond
	work       [][]Decision
	active     int
	newViol    int
	retries    map[string]int
	SolverRestarts int
	ForkSites  map[string]int // where two-sided forks happened (profiling)
	stop       bool
	Paths      int
	Outcomes   map[string]int
	Msgs       map[string]int // unsupported / unwind messages
	Violations []Violation
	Reached    map[string]int
	AssertsOK  map[string]int
	AssertsUnk map[string]int
	Funcs      map[*ssa.Function]bool
	Notes      map[string]int
	Samples    []PathResult
	Stats      smt.Stats
	Decisions  int
	MaxDepthSeen int
	deadline   time.Time
	TimedOut   bool
	Budgeted   bool
	Trace      bool
	WitnessTapes [][]TapeEntry
	InitFaults   int // package initialisations that died with an interpreter fault (taints every result)
}

func (ex *Explorer) initFault(msg string) {
	ex.mu.Lock()
	ex.InitFaults++
	ex.Msgs["engine: "+msg]++
	ex.Outcomes["engine"]++
	ex.mu.Unlock()
}

func (ex *Explorer) buildPkg(p *ssa.Package) {
	ex.buildMu.Lock()
	if !ex.built[p] {
		p.Build()
		ex.built[p] = true
	}
	ex.buildMu.Unlock()
}

func NewExplorer(prog *ssa.Program, fn *ssa.Function, cfg *Config, sizes types.Sizes) *Explorer {
	cfg.defaults()
	ex := &Explorer{Prog: prog, Fn: fn, Cfg: cfg, Sizes: sizes,
		built: map[*ssa.Package]bool{}, Outcomes: map[string]int{}, Msgs: map[string]int{},
		Reached: map[string]int{}, AssertsOK: map[string]int{}, AssertsUnk: map[string]int{},
		Funcs: map[*ssa.Function]bool{}, Notes: map[string]int{}}
	ex.cond = sync.NewCond(&ex.mu)
	return ex
}

func (ex *Explorer) newWorker(id int) (*Interp, error) {
	ctx := smt.NewCtx()
	s, err := smt.NewSolver(ctx, ex.Cfg.SolverTimeout)
	if err != nil {
		return nil, err
	}
	if lp := os.Getenv("GOSX_SMTLOG"); lp != "" {
		f, _ := os.Create(fmt.Sprintf("%s.%d.smt2", lp, id))
		s.Log = f
	}
	i := &Interp{prog: ex.Prog, cfg: ex.Cfg, sizes: ex.Sizes, ctx: ctx, solver: s,
		globals: map[*ssa.Global]*value{}, pkgInit: map[*ssa.Package]int{}, ex: ex, wid: id,
		funcsSeen: map[*ssa.Function]bool{}, trace: ex.Trace}
	rt := ex.Prog.ImportedPackage("runtime")
	if rt == nil {
		return nil, fmt.Errorf("runtime package not loaded")
	}
	i.runtimeErrorString = rt.Type("errorString").Object().Type()
	return i, nil
}

// Run explores all paths of the harness.
func (ex *Explorer) Run() error {
	if ex.Cfg.TimeBudgetS > 0 {
		ex.deadline = time.Now().Add(time.Duration(ex.Cfg.TimeBudgetS) * time.Second)
	}
	ex.work = [][]Decision{nil}
	nw := ex.Cfg.Workers
	var wg sync.WaitGroup
	errs := make(chan error, nw)
	for w := 0; w < nw; w++ {
		wg.Add(1)
		go func(id int) {
			defer wg.Done()
			i, err := ex.newWorker(id)
			if err != nil {
				errs <- err
				ex.mu.Lock()
				ex.stop = true
				ex.cond.Broadcast()
				ex.mu.Unlock()
				return
			}
			defer i.solver.Close()
			i.workerLoop()
			ex.mu.Lock()
			for f := range i.funcsSeen {
				ex.Funcs[f] = true
			}
			for k, v := range i.notes {
				ex.Notes[k] += v
			}
			st := i.solver.Stats
			ex.Stats.Queries += st.Queries
			ex.Stats.SatN += st.SatN
			ex.Stats.UnsatN += st.UnsatN
			ex.Stats.UnknownN += st.UnknownN
			ex.Stats.SolverTime += st.SolverTime
			ex.Stats.FallbackN += st.FallbackN
			ex.Stats.FallbackOK += st.FallbackOK
			ex.Stats.FallbackTime += st.FallbackTime
			for k, n := range st.FallbackBy {
				if ex.Stats.FallbackBy == nil {
					ex.Stats.FallbackBy = map[string]int{}
				}
				ex.Stats.FallbackBy[k] += n
			}
			ex.Stats.Errors = append(ex.Stats.Errors, st.Errors...)
			ex.mu.Unlock()
		}(w)
	}
	wg.Wait()
	select {
	case err := <-errs:
		return err
	default:
	}
	return nil
}

func (i *Interp) workerLoop() {
	ex := i.ex
	var solverDecs []Decision
	for {
		ex.mu.Lock()
		for len(ex.work) == 0 && ex.active > 0 && !ex.stop {
			ex.cond.Wait()
		}
		if ex.stop || (len(ex.work) == 0 && ex.active == 0) {
			ex.cond.Broadcast()
			ex.mu.Unlock()
			return
		}
		if !ex.deadline.IsZero() && time.Now().After(ex.deadline) {
			ex.TimedOut = true
			ex.stop = true
			ex.cond.Broadcast()
			ex.mu.Unlock()
			return
		}
		if ex.Paths >= ex.Cfg.MaxPaths {
			ex.Budgeted = true
			ex.stop = true
			ex.cond.Broadcast()
			ex.mu.Unlock()
			return
		}
		prefix := ex.work[len(ex.work)-1]
		ex.work = ex.work[:len(ex.work)-1]
		ex.active++
		ex.Paths++
		ex.mu.Unlock()

		res := i.runPath(prefix, &solverDecs)

		if res.Outcome == "engine" && strings.Contains(res.Msg, "solver process died") {
			// a crashed solver (z3 5.1.0 has an intermittent internal assertion failure in its LP
			// core) says nothing about the path: retry it on a fresh solver process, twice at most
			key := fmt.Sprint(prefix)
			ex.mu.Lock()
			if ex.retries == nil {
				ex.retries = map[string]int{}
			}
			ex.retries[key]++
			again := ex.retries[key] <= 2
			if again {
				ex.SolverRestarts++
				ex.active--
				ex.Paths--
				ex.work = append(ex.work, prefix)
				ex.cond.Broadcast()
			}
			ex.mu.Unlock()
			if again {
				if n := len(i.solver.Stats.Errors); n > 0 {
					i.solver.Stats.Errors = i.solver.Stats.Errors[:n-1]
				}
				continue
			}
		}
		ex.mu.Lock()
		ex.active--
		ex.Outcomes[res.Outcome]++
		if res.Outcome != "ok" && res.Outcome != "infeasible" && res.Outcome != "assume-end" && res.Outcome != "bound-cut" && res.Msg != "" {
			m := res.Msg
			if len(m) > 300 {
				m = m[:300]
			}
			ex.Msgs[res.Outcome+": "+m]++
		}
		ex.Decisions += res.NDec
		if res.NDec > ex.MaxDepthSeen {
			ex.MaxDepthSeen = res.NDec
		}
		if len(ex.Samples) < 4 && res.Outcome == "ok" && len(res.Tape) > 0 {
			ex.Samples = append(ex.Samples, res)
		}
		if res.Outcome == "ok" && len(res.Tape) > 0 && len(ex.WitnessTapes) < 64 {
			ex.WitnessTapes = append(ex.WitnessTapes, res.Tape)
		}
		ex.cond.Broadcast()
		ex.mu.Unlock()
		// keep memory bounded: restart solver + ctx now and then
		if i.ctx.Size() > 2000000 {
			i.resetSolver()
			solverDecs = nil
		}
	}
}

// runPath executes the harness once following prefix.
func (i *Interp) runPath(prefix []Decision, solverDecs *[]Decision) (res PathResult) {
	// common prefix with the scopes the solver still holds
	k := 0
	for k < len(prefix) && k < len(*solverDecs) && prefix[k] == (*solverDecs)[k] {
		k++
	}
	// scopes to keep = non-forced decisions among first k
	keep := 0
	for _, d := range (*solverDecs)[:k] {
		if !d.Forced {
			keep++
		}
	}
	if i.solver.Dead {
		i.resetSolver()
		*solverDecs = (*solverDecs)[:0]
		k, keep = 0, 0
	}
	i.solver.Pop(i.solver.Depth() - keep)
	if !i.hasPrev {
		k = -1
	}
	p := &pathState{prefix: prefix, k: k, fresh: len(prefix) == 0}
	i.path = p
	i.logging = true
	i.sched = nil
	i.curG = nil
	i.files = nil
	i.timerOf = map[*value]*vtimer{}
	defer func() {
		r := recover()
		i.killGoroutines()
		i.logging = false
		i.rollback()
		*solverDecs = append((*solverDecs)[:0], p.decisions...)
		i.hasPrev = true
		res.NDec = len(p.decisions)
		res.Steps = p.steps
		res.Reached = p.reached
		res.Prefix = p.decisions
		res.Observed = p.observed
		if r == nil {
			res.Outcome = "ok"
			if p.nfresh > 0 || len(prefix) == 0 {
				res.Tape = i.currentTape()
			}
			return
		}
		switch r := r.(type) {
		case pathAbort:
			res.Outcome, res.Msg = r.kind, r.msg
			if r.kind == "unsupported" || r.kind == "unwind" || r.kind == "steps" || r.kind == "engine" {
				if os.Getenv("GOSX_DEBUG") != "" {
					fmt.Fprintf(os.Stderr, "[w%d] path ended: %s: %s\n", i.wid, r.kind, r.msg)
				}
			}
		case targetPanic:
			res.Outcome = "panic"
			res.Msg = toString(r.v)
			if !i.cfg.ExpectPanic && p.fresh {
				i.recordViolation("panic", "unexpected-panic", res.Msg)
			}
		default:
			res.Outcome = "engine"
			res.Msg = fmt.Sprint(r)
		}
	}()
	callSSA(i, nil, token.NoPos, i.ex.Fn, nil, nil)
	i.quiesce()
	return
}

// ---- decisions ----

// check runs a solver query; a solver process that died (crash, watchdog kill) ends the path as an
// engine problem and is replaced before the next path - its answers are never guessed.
func (i *Interp) check(assumps ...*smt.Term) smt.Result {
	r := i.solver.Check(assumps...)
	if i.solver.Dead {
		panic(pathAbort{"engine", "solver process died during a query (restarted for the next path)"})
	}
	return r
}

func (i *Interp) resetSolver() {
	i.solver.Restart()
	i.ctx = smt.NewCtx()
	i.solver.Ctx = i.ctx
	i.hasPrev = false
}

// retainedNow: emissions at this point are already in the solver (shared with the previous path).
func (p *pathState) retainedNow() bool {
	return p.k >= 0 && len(p.decisions) <= p.k
}

func (i *Interp) assertPC(t *smt.Term) {
	p := i.path
	if p.initMode {
		panic(pathAbort{"engine", "solver assertion during package init"})
	}
	if p.retainedNow() {
		return
	}
	i.solver.Assert(t)
}

// assume adds t to the path condition without checking feasibility.
func (i *Interp) assume(t *smt.Term) {
	if t.IsTrue() {
		return
	}
	i.assertPC(t)
}

func (i *Interp) decideValue(v value) bool {
	switch v := v.(type) {
	case bool:
		return v
	case sym:
		return i.decide(v.t)
	}
	panic(fmt.Sprintf("decideValue %T", v))
}

// decide resolves a symbolic condition for this path, forking the exploration when both sides are feasible.
func (i *Interp) decide(cond *smt.Term) bool {
	return i.decideCand(cond, 0)
}

func (i *Interp) decideCand(cond *smt.Term, cand int64) bool {
	if cond.IsTrue() {
		return true
	}
	if cond.IsFalse() {
		return false
	}
	p := i.path
	if p.initMode {
		panic(pathAbort{"engine", "symbolic branch during package init"})
	}
	idx := len(p.decisions)
	c := i.ctx
	if idx < len(p.prefix) {
		d := p.prefix[idx]
		retained := p.k >= 0 && idx < p.k
		p.decisions = append(p.decisions, d)
		if !d.Forced && !retained {
			i.solver.Push()
			if d.Taken {
				i.solver.Assert(cond)
			} else {
				i.solver.Assert(c.Not(cond))
			}
		}
		if len(p.decisions) >= len(p.prefix) {
			p.fresh = true
		}
		return d.Taken
	}
	p.fresh = true
	p.nfresh++
	rT := i.check(cond)
	rF := i.check(c.Not(cond))
	if os.Getenv("GOSX_DECDBG") != "" && i.curInstr != nil {
		cs := cond.String()
		if len(cs) > 200 {
			cs = cs[:200]
		}
		fmt.Fprintf(os.Stderr, "DEC w%d #%d %s @%s T=%v F=%v %s\n", i.wid, idx, i.curFn.Name(), i.pos(i.curInstr.Pos()), rT, rF, cs)
	}
	if rT == smt.Unknown || rF == smt.Unknown {
		p.unknowns++
		i.note("solver returned unknown on a branch feasibility query (both sides kept)")
	}
	feasT, feasF := rT != smt.Unsat, rF != smt.Unsat
	switch {
	case feasT && feasF:
		if i.curInstr != nil {
			site := fmt.Sprintf("%s @%s", i.curFn.Name(), i.pos(i.curInstr.Pos()))
			i.ex.mu.Lock()
			if i.ex.ForkSites == nil {
				i.ex.ForkSites = map[string]int{}
			}
			i.ex.ForkSites[site]++
			if dbg := os.Getenv("GOSX_FORKDBG"); dbg != "" && strings.Contains(site, dbg) && i.ex.ForkSites[site] <= 3 {
				fmt.Fprintf(os.Stderr, "FORK w%d %s: k=%d prefix=%v decisions=%v depth=%d\n", i.wid, site, p.k, p.prefix, p.decisions, i.solver.Depth())
			}
			i.ex.mu.Unlock()
		}
		alt := make([]Decision, idx+1)
		copy(alt, p.decisions)
		alt[idx] = Decision{Taken: false, Cand: cand}
		i.ex.enqueue(alt)
		p.decisions = append(p.decisions, Decision{Taken: true, Cand: cand})
		i.solver.Push()
		i.solver.Assert(cond)
		return true
	case feasT:
		p.decisions = append(p.decisions, Decision{Taken: true, Cand: cand, Forced: true})
		return true
	case feasF:
		p.decisions = append(p.decisions, Decision{Taken: false, Cand: cand, Forced: true})
		return false
	}
	panic(pathAbort{"infeasible", "path condition unsatisfiable"})
}

func (ex *Explorer) enqueue(pfx []Decision) {
	ex.mu.Lock()
	ex.work = append(ex.work, pfx)
	ex.cond.Signal()
	ex.mu.Unlock()
}

// concretize forks over the feasible values of BV term t and returns the value chosen on this path.
func (i *Interp) concretize(t *smt.Term, what string) uint64 {
	if t.IsConst() {
		return t.U
	}
	p := i.path
	c := i.ctx
	for n := 0; n < i.cfg.MaxConcretize; n++ {
		idx := len(p.decisions)
		var cand uint64
		if idx < len(p.prefix) {
			cand = uint64(p.prefix[idx].Cand)
		} else {
			if r := i.check(); r != smt.Sat {
				if r == smt.Unsat {
					panic(pathAbort{"infeasible", "path condition unsatisfiable"})
				}
				panic(pathAbort{"unsupported", "solver unknown while concretising " + what})
			}
			vs, err := i.solver.GetValues([]*smt.Term{t})
			if err != nil {
				panic(pathAbort{"engine", "get-value: " + err.Error()})
			}
			cand = vs[0].U
		}
		if i.decideCand(c.Eq(t, c.BVConst(cand, t.Sort.W)), int64(cand)) {
			return cand
		}
	}
	panic(pathAbort{"unwind", fmt.Sprintf("more than %d feasible values while concretising %s", i.cfg.MaxConcretize, what)})
}

func (i *Interp) concretizeInt(s sym, what string) int64 {
	if s.t.IsConst() {
		return s.t.Big.Int64()
	}
	p := i.path
	c := i.ctx
	for n := 0; n < i.cfg.MaxConcretize; n++ {
		idx := len(p.decisions)
		var cand int64
		if idx < len(p.prefix) {
			cand = p.prefix[idx].Cand
		} else {
			if r := i.check(); r != smt.Sat {
				if r == smt.Unsat {
					panic(pathAbort{"infeasible", "path condition unsatisfiable"})
				}
				panic(pathAbort{"unsupported", "solver unknown while concretising " + what})
			}
			vs, err := i.solver.GetValues([]*smt.Term{s.t})
			if err != nil {
				panic(pathAbort{"engine", "get-value: " + err.Error()})
			}
			cand = vs[0].Big.Int64()
		}
		if i.decideCand(c.Eq(s.t, c.IntConst64(cand)), cand) {
			return cand
		}
	}
	panic(pathAbort{"unwind", fmt.Sprintf("more than %d feasible values while concretising %s", i.cfg.MaxConcretize, what)})
}

// choose forks over 0..n-1.
func (i *Interp) choose(n int, what string) int {
	if n <= 1 {
		return 0
	}
	w := 8
	for (1 << uint(w)) < n {
		w += 8
	}
	v := i.freshVar("choice", smt.BV(w))
	i.assume(i.ctx.BVUlt(v, i.ctx.BVConst(uint64(n), w)))
	i.path.nondets = append(i.path.nondets, nondetVar{Name: what, Kind: "choice", t: v})
	saved := i.cfg.MaxConcretize
	if n > saved {
		i.cfg.MaxConcretize = n
	}
	r := int(i.concretize(v, what))
	i.cfg.MaxConcretize = saved
	return r
}

func (i *Interp) choosePerm(n int) []int {
	perm := make([]int, 0, n)
	avail := make([]int, n)
	for j := range avail {
		avail[j] = j
	}
	for len(avail) > 1 {
		c := i.choose(len(avail), "map iteration order")
		perm = append(perm, avail[c])
		avail = append(avail[:c:c], avail[c+1:]...)
	}
	return append(perm, avail[0])
}

func (i *Interp) freshVar(tag string, s smt.Sort) *smt.Term {
	p := i.path
	p.nvars++
	st := "b"
	switch s.K {
	case smt.KBV:
		st = fmt.Sprintf("bv%d", s.W)
	case smt.KInt:
		st = "int"
	}
	return i.ctx.Var(fmt.Sprintf("v%d_%s_%s", p.nvars, tag, st), s)
}

// ---- assertions, witnesses ----

func (i *Interp) modelTape() []TapeEntry {
	p := i.path
	var ts []*smt.Term
	for _, nv := range p.nondets {
		ts = append(ts, nv.t)
	}
	vals, err := i.solver.GetValues(ts)
	if err != nil {
		i.note("get-value failed: " + err.Error())
		return nil
	}
	tape := make([]TapeEntry, len(ts))
	for j, nv := range p.nondets {
		e := TapeEntry{Kind: nv.Kind, Name: nv.Name}
		switch nv.t.Sort.K {
		case smt.KBool:
			e.V = fmt.Sprint(vals[j].Bool)
		case smt.KBV:
			e.V = new(big.Int).SetUint64(vals[j].U).String()
		case smt.KInt:
			e.V = vals[j].Big.String()
			if nv.fix > 0 {
				f, _ := new(big.Float).SetInt(vals[j].Big).Float64()
				e.V = new(big.Int).SetUint64(math.Float64bits(math.Ldexp(f, -int(nv.fix)))).String()
			}
		}
		tape[j] = e
	}
	return tape
}

// currentTape returns a model of the current path condition as a replay tape (nil if not sat).
func (i *Interp) currentTape() []TapeEntry {
	if len(i.path.nondets) == 0 {
		return []TapeEntry{}
	}
	if i.solver.Check() != smt.Sat {
		return nil
	}
	return i.modelTape()
}

func (i *Interp) recordViolation(kind, name, msg string) {
	p := i.path
	v := Violation{Harness: i.cfg.Harness, Assert: name, Kind: kind, Msg: msg, Known: p.known}
	v.Prefix = append(v.Prefix, p.decisions...)
	v.Observed = append(v.Observed, p.observed...)
	if kind == "panic" {
		if i.solver.Check() == smt.Sat {
			v.Tape = i.modelTape()
		}
	} else {
		v.Tape = i.modelTape() // model of the failing check just obtained
	}
	ex := i.ex
	ex.mu.Lock()
	if len(ex.Violations) < 50 {
		ex.Violations = append(ex.Violations, v)
	}
	if v.Known == "" {
		// enough counterexamples outside the known shapes: the verdict is settled, stop exploring
		ex.newViol++
		if ex.newViol >= 24 {
			ex.stop = true
			ex.cond.Broadcast()
		}
	}
	ex.mu.Unlock()
}

// assertProp implements zzverif.Assert.
func (i *Interp) assertProp(name string, cond value) {
	p := i.path
	c := i.ctx
	t := i.boolTerm(cond)
	if !p.fresh {
		// already checked by the path this prefix was split from
		i.assume(t)
		return
	}
	p.asserted++
	if t.IsTrue() {
		i.ex.countAssert(name, true)
		return
	}
	r := i.check(c.Not(t))
	switch r {
	case smt.Unsat:
		i.ex.countAssert(name, true)
	case smt.Sat:
		i.recordViolation("assert", name, "assertion can fail")
		if t.IsFalse() || i.check(t) == smt.Unsat {
			panic(pathAbort{"assume-end", "assertion fails for every input on this path"})
		}
		i.assume(t)
	default:
		i.ex.countAssert(name, false)
		i.assume(t)
	}
}

func (ex *Explorer) countAssert(name string, ok bool) {
	ex.mu.Lock()
	if ok {
		ex.AssertsOK[name]++
	} else {
		ex.AssertsUnk[name]++
	}
	ex.mu.Unlock()
}

func (i *Interp) assumeProp(cond value) {
	t := i.boolTerm(cond)
	if t.IsTrue() {
		return
	}
	if t.IsFalse() {
		panic(pathAbort{"assume-end", "assume(false)"})
	}
	p := i.path
	i.assume(t)
	if p.fresh {
		if i.check() == smt.Unsat {
			panic(pathAbort{"assume-end", "assumption unsatisfiable on this path"})
		}
	}
}

func (i *Interp) reach(name string) {
	p := i.path
	if !p.fresh {
		return
	}
	p.reached = append(p.reached, name)
	ex := i.ex
	ex.mu.Lock()
	ex.Reached[name]++
	ex.mu.Unlock()
}

// ---- result summary ----

type Summary struct {
	Harness     string         `json:"harness"`
	Verdict     string         `json:"verdict"` // holds | violation | inconclusive | vacuous
	InitFaults  int            `json:"init_faults,omitempty"`
	Paths       int            `json:"paths"`
	Outcomes    map[string]int `json:"outcomes"`
	Decisions   int            `json:"decisions"`
	MaxDecDepth int            `json:"max_decision_depth"`
	Queries     int            `json:"queries"`
	Sat         int            `json:"sat"`
	Unsat       int            `json:"unsat"`
	Unknown     int            `json:"unknown"`
	Fallbacks   int            `json:"fallback_queries"`          // incremental solver said unknown, fresh one-shot solvers asked
	FallbackOK  int            `json:"fallback_queries_decided"`  // ... and one of them gave a definite answer
	FallbackBy  map[string]int `json:"fallback_decided_by,omitempty"`
	FallbackS   float64        `json:"fallback_time_s"`
	SolverTimeS float64        `json:"solver_time_s"`
	WallS       float64        `json:"wall_s"`
	Reached     map[string]int `json:"reached"`
	AssertsOK   map[string]int `json:"asserts_ok"`
	AssertsUnk  map[string]int `json:"asserts_unknown"`
	Problems    map[string]int `json:"problems"`
	Notes       map[string]int `json:"notes"`
	Funcs       []string       `json:"functions_encoded"`
	Violations  []Violation    `json:"violations"`
	Samples     []PathResult   `json:"samples"`
	SolverErrs  []string       `json:"solver_errors"`
	TimedOut    bool           `json:"timed_out"`
	Budgeted    bool           `json:"path_budget_hit"`
	Bounds      *Config        `json:"bounds"`
	Witnesses   [][]TapeEntry  `json:"witness_tapes"`
	ForkSites   map[string]int `json:"fork_sites,omitempty"`
}

func (ex *Explorer) Summary(wall time.Duration) *Summary {
	s := &Summary{Harness: ex.Cfg.Harness, Paths: ex.Paths, Outcomes: ex.Outcomes, Decisions: ex.Decisions,
		MaxDecDepth: ex.MaxDepthSeen, Queries: ex.Stats.Queries, Sat: ex.Stats.SatN, Unsat: ex.Stats.UnsatN,
		Unknown: ex.Stats.UnknownN, Fallbacks: ex.Stats.FallbackN, FallbackOK: ex.Stats.FallbackOK, FallbackBy: ex.Stats.FallbackBy,
		FallbackS: ex.Stats.FallbackTime.Seconds(), SolverTimeS: ex.Stats.SolverTime.Seconds(), WallS: wall.Seconds(),
		Reached: ex.Reached, AssertsOK: ex.AssertsOK, AssertsUnk: ex.AssertsUnk, Problems: ex.Msgs, Notes: ex.Notes,
		Violations: ex.Violations, Samples: ex.Samples, SolverErrs: ex.Stats.Errors, TimedOut: ex.TimedOut,
		Budgeted: ex.Budgeted, Bounds: ex.Cfg, Witnesses: ex.WitnessTapes, ForkSites: ex.ForkSites}
	for f := range ex.Funcs {
		pos := ex.Prog.Fset.Position(f.Pos())
		s.Funcs = append(s.Funcs, fmt.Sprintf("%s (%s:%d)", f.String(), strings.TrimPrefix(pos.Filename, "/repo/"), pos.Line))
	}
	sort.Strings(s.Funcs)
	if len(s.SolverErrs) > 10 {
		s.SolverErrs = s.SolverErrs[:10]
	}
	incon := ex.Outcomes["unsupported"]+ex.Outcomes["unwind"]+ex.Outcomes["steps"]+ex.Outcomes["engine"] > 0 ||
		len(ex.AssertsUnk) > 0 || len(ex.Stats.Errors) > 0 || ex.TimedOut || ex.Budgeted
	s.InitFaults = ex.InitFaults
	switch {
	case ex.InitFaults > 0:
		s.Verdict = "inconclusive"
	case len(ex.Violations) > 0:
		s.Verdict = "violation"
	case incon:
		s.Verdict = "inconclusive"
	case len(ex.Reached) == 0:
		s.Verdict = "vacuous"
	default:
		s.Verdict = "holds"
	}
	return s
}

func (s *Summary) JSON() []byte {
	b, _ := json.MarshalIndent(s, "", " ")
	return b
}
