package interp

// fileTable: in-engine file system model (filled in by the file intrinsics).
type fileTable struct {
	files map[string]*vfile
}

type vfile struct {
	data []value
}
