package interp

// amap: insertion-ordered association map usable with symbolic keys.
// Concrete keys are indexed by a canonical string for speed.

import (
	"fmt"
	"go/types"
	"math"
	"strconv"
	"strings"
	"unsafe"

	"golang.org/x/tools/go/ssa"
)

type amap struct {
	keyT  types.Type
	keys  []value
	vals  []value
	ckey  []string       // canonical key per entry ("" if symbolic)
	idx   map[string]int // canonical -> position
	nsym  int            // number of entries with symbolic keys
}

func newAmap(keyT types.Type) *amap {
	return &amap{keyT: keyT, idx: map[string]int{}}
}

// canonKey returns a canonical string for a fully concrete comparable value.
func canonKey(sb *strings.Builder, v value) bool {
	switch v := v.(type) {
	case bool:
		if v {
			sb.WriteString("T;")
		} else {
			sb.WriteString("F;")
		}
	case int:
		sb.WriteString(strconv.FormatInt(int64(v), 10))
		sb.WriteByte(';')
	case int8:
		sb.WriteString(strconv.FormatInt(int64(v), 10))
		sb.WriteByte(';')
	case int16:
		sb.WriteString(strconv.FormatInt(int64(v), 10))
		sb.WriteByte(';')
	case int32:
		sb.WriteString(strconv.FormatInt(int64(v), 10))
		sb.WriteByte(';')
	case int64:
		sb.WriteString(strconv.FormatInt(v, 10))
		sb.WriteByte(';')
	case uint:
		sb.WriteString(strconv.FormatUint(uint64(v), 10))
		sb.WriteByte(';')
	case uint8:
		sb.WriteString(strconv.FormatUint(uint64(v), 10))
		sb.WriteByte(';')
	case uint16:
		sb.WriteString(strconv.FormatUint(uint64(v), 10))
		sb.WriteByte(';')
	case uint32:
		sb.WriteString(strconv.FormatUint(uint64(v), 10))
		sb.WriteByte(';')
	case uint64:
		sb.WriteString(strconv.FormatUint(v, 10))
		sb.WriteByte(';')
	case uintptr:
		sb.WriteString(strconv.FormatUint(uint64(v), 10))
		sb.WriteByte(';')
	case float32:
		if v != v {
			return false // NaN never equal
		}
		if v == 0 {
			v = 0
		}
		sb.WriteString(strconv.FormatUint(uint64(math.Float32bits(v)), 16))
		sb.WriteByte(';')
	case float64:
		if v != v {
			return false
		}
		if v == 0 {
			v = 0
		}
		sb.WriteString(strconv.FormatUint(math.Float64bits(v), 16))
		sb.WriteByte(';')
	case string:
		sb.WriteString(strconv.Itoa(len(v)))
		sb.WriteByte(':')
		sb.WriteString(v)
		sb.WriteByte(';')
	case *value:
		fmt.Fprintf(sb, "p%x;", uintptr(unsafe.Pointer(v)))
	case *channel:
		fmt.Fprintf(sb, "c%x;", uintptr(unsafe.Pointer(v)))
	case structure:
		sb.WriteByte('{')
		for _, f := range v {
			if !canonKey(sb, f) {
				return false
			}
		}
		sb.WriteByte('}')
	case array:
		sb.WriteByte('[')
		for _, f := range v {
			if !canonKey(sb, f) {
				return false
			}
		}
		sb.WriteByte(']')
	case iface:
		if v.t == nil {
			sb.WriteString("nil;")
			return true
		}
		sb.WriteString(v.t.String())
		sb.WriteByte('#')
		return canonKey(sb, v.v)
	case *ssa.Function:
		fmt.Fprintf(sb, "f%p;", v)
	case unsafe.Pointer:
		fmt.Fprintf(sb, "u%x;", uintptr(v))
	default:
		return false // sym, symstr, ...
	}
	return true
}

func ckeyOf(v value) (string, bool) {
	var sb strings.Builder
	ok := canonKey(&sb, v)
	return sb.String(), ok
}

// find returns the position of key k or -1. May fork (decide) on symbolic equality.
func (i *Interp) mapFind(m *amap, k value) int {
	if m == nil {
		return -1
	}
	ck, conc := ckeyOf(k)
	if conc && m.nsym == 0 {
		if p, ok := m.idx[ck]; ok {
			return p
		}
		return -1
	}
	for j := range m.keys {
		if conc && m.ckey[j] != "" {
			if m.ckey[j] == ck {
				return j
			}
			continue
		}
		if i.decideValue(i.equalsV(m.keyT, m.keys[j], k)) {
			return j
		}
	}
	return -1
}

func (i *Interp) mapLookup(m *amap, k value) (value, bool) {
	p := i.mapFind(m, k)
	if p < 0 {
		return nil, false
	}
	return m.vals[p], true
}

func (i *Interp) mapInsert(m *amap, k, v value) {
	p := i.mapFind(m, k)
	if p >= 0 {
		old := m.vals[p]
		if i.logging {
			i.undo = append(i.undo, undoRec{fn: func() { m.vals[p] = old }})
		}
		m.vals[p] = v
		return
	}
	ck, conc := ckeyOf(k)
	if !conc {
		ck = ""
		m.nsym++
	} else {
		m.idx[ck] = len(m.keys)
	}
	m.keys = append(m.keys, k)
	m.vals = append(m.vals, v)
	m.ckey = append(m.ckey, ck)
	if i.logging {
		i.undo = append(i.undo, undoRec{fn: func() {
			n := len(m.keys) - 1
			if m.ckey[n] == "" {
				m.nsym--
			} else {
				delete(m.idx, m.ckey[n])
			}
			m.keys, m.vals, m.ckey = m.keys[:n], m.vals[:n], m.ckey[:n]
		}})
	}
}

func (i *Interp) mapDelete(m *amap, k value) {
	p := i.mapFind(m, k)
	if p < 0 {
		return
	}
	if i.logging {
		keys := append([]value(nil), m.keys...)
		vals := append([]value(nil), m.vals...)
		ckey := append([]string(nil), m.ckey...)
		nsym := m.nsym
		i.undo = append(i.undo, undoRec{fn: func() {
			m.keys, m.vals, m.ckey, m.nsym = keys, vals, ckey, nsym
			m.reindex()
		}})
	}
	if m.ckey[p] == "" {
		m.nsym--
	}
	m.keys = append(m.keys[:p:p], m.keys[p+1:]...)
	m.vals = append(m.vals[:p:p], m.vals[p+1:]...)
	m.ckey = append(m.ckey[:p:p], m.ckey[p+1:]...)
	m.reindex()
}

func (i *Interp) mapClear(m *amap) {
	if m == nil {
		return
	}
	if i.logging {
		keys, vals, ckey, nsym := m.keys, m.vals, m.ckey, m.nsym
		i.undo = append(i.undo, undoRec{fn: func() {
			m.keys, m.vals, m.ckey, m.nsym = keys, vals, ckey, nsym
			m.reindex()
		}})
	}
	m.keys, m.vals, m.ckey, m.nsym = nil, nil, nil, 0
	m.reindex()
}

func (m *amap) reindex() {
	m.idx = make(map[string]int, len(m.keys))
	for j, c := range m.ckey {
		if c != "" {
			m.idx[c] = j
		}
	}
}

func (m *amap) len() int {
	if m == nil {
		return 0
	}
	return len(m.keys)
}

// amapIter iterates over a snapshot of the keys taken at Range time, skipping
// entries deleted meanwhile and reading current values (Go semantics permit this).
type amapIter struct {
	i    *Interp
	m    *amap
	keys []value
	pos  int
}

func (it *amapIter) next() tuple {
	for it.pos < len(it.keys) {
		k := it.keys[it.pos]
		it.pos++
		// fast check: still present?
		ck, conc := ckeyOf(k)
		if conc {
			if p, ok := it.m.idx[ck]; ok {
				return tuple{true, k, it.m.vals[p]}
			}
			if it.m.nsym == 0 {
				continue
			}
		}
		// symbolic key: find identical key object (no forking: identity by position of same value)
		for j := range it.m.keys {
			if sameValueIdentity(it.m.keys[j], k) {
				return tuple{true, k, it.m.vals[j]}
			}
		}
	}
	return tuple{false, nil, nil}
}

// sameValueIdentity: structural identity without solver (hash-consed terms compare by pointer).
func sameValueIdentity(a, b value) bool {
	switch a := a.(type) {
	case []value:
		// slices: nil == nil, otherwise the same view of the same backing array
		b, ok := b.([]value)
		if !ok {
			return false
		}
		if a == nil || b == nil {
			return a == nil && b == nil
		}
		if len(a) != len(b) || cap(a) != cap(b) {
			return false
		}
		if cap(a) == 0 {
			return true
		}
		return &a[:1][0] == &b[:1][0]
	case sym:
		b, ok := b.(sym)
		return ok && a.t == b.t
	case symstr:
		b, ok := b.(symstr)
		if !ok || len(a.b) != len(b.b) {
			return false
		}
		for j := range a.b {
			if !sameValueIdentity(a.b[j], b.b[j]) {
				return false
			}
		}
		return true
	case structure:
		b, ok := b.(structure)
		if !ok || len(a) != len(b) {
			return false
		}
		for j := range a {
			if !sameValueIdentity(a[j], b[j]) {
				return false
			}
		}
		return true
	case array:
		b, ok := b.(array)
		if !ok || len(a) != len(b) {
			return false
		}
		for j := range a {
			if !sameValueIdentity(a[j], b[j]) {
				return false
			}
		}
		return true
	case iface:
		b, ok := b.(iface)
		if !ok {
			return false
		}
		if a.t == nil || b.t == nil {
			return a.t == nil && b.t == nil
		}
		return types.Identical(a.t, b.t) && sameValueIdentity(a.v, b.v)
	}
	ca, ok1 := ckeyOf(a)
	cb, ok2 := ckeyOf(b)
	return ok1 && ok2 && ca == cb
}
