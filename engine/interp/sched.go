package interp

// Synchronisation primitives, goroutines and channels.
// Goroutines are host goroutines run one at a time (baton passing); every blocking or
// synchronising operation is a scheduling point where the next goroutine to run is a
// forked choice, so schedules are explored like any other nondeterminism.

import (
	"fmt"
	"go/token"
	"go/types"

	"golang.org/x/tools/go/ssa"
)

type goKill struct{}

type goroutine struct {
	id      int
	resume  chan bool // true: run, false: die
	done    bool
	blocked func() bool // nil when runnable; else returns true when it can proceed
	what    string
	panicV  interface{}
}

type scheduler struct {
	gs      []*goroutine
	timers  []*vtimer
	now     int64 // virtual nanoseconds
	yieldCh chan *goroutine
	nextID  int
	switches int
	dead    chan struct{} // closed when the path ends: every parked or late goroutine of the path dies
}

type vtimer struct {
	at      int64
	fn      func()
	stopped bool
	fired   bool
	id      int
}

type channel struct {
	buf    []value
	cap_   int
	closed bool
	// rendezvous for unbuffered channels
	sendq []*sendReq
	recvWaiting int
}

type sendReq struct {
	v     value
	taken bool
}

func (c *channel) capacity() int {
	if c == nil {
		return 0
	}
	return c.cap_
}

func (i *Interp) makeChan(n int) *channel { return &channel{cap_: n} }

func (i *Interp) chanLen(c *channel) int {
	if c == nil {
		return 0
	}
	return len(c.buf)
}

// wake hands the baton to g (no-op when the path is already dead).
func (s *scheduler) wake(g *goroutine) {
	select {
	case g.resume <- true:
	case <-s.dead:
	}
}

// park waits for the baton; a goroutine of a dead path unwinds with goKill (never runs target code again).
func (s *scheduler) park(g *goroutine) {
	select {
	case ok := <-g.resume:
		if !ok {
			panic(goKill{})
		}
		select {
		case <-s.dead:
			panic(goKill{})
		default:
		}
	case <-s.dead:
		panic(goKill{})
	}
}

func (i *Interp) ensureSched() *scheduler {
	if i.sched == nil {
		i.sched = &scheduler{dead: make(chan struct{})}
		g := &goroutine{id: 0, resume: make(chan bool)}
		i.sched.gs = []*goroutine{g}
		i.sched.nextID = 1
		i.curG = g
	}
	return i.sched
}

// block suspends the current goroutine until ready() holds; scheduling point.
func (i *Interp) block(fr *frame, what string, ready func() bool) {
	s := i.ensureSched()
	g := i.curG
	if ready() && len(s.gs) == 1 && !i.hasArmedTimer() {
		return
	}
	g.blocked = ready
	g.what = what
	i.reschedule()
	g.blocked = nil
}

func (i *Interp) hasArmedTimer() bool {
	if i.sched == nil {
		return false
	}
	for _, t := range i.sched.timers {
		if !t.stopped && !t.fired {
			return true
		}
	}
	return false
}

// yield is a pure scheduling point (current goroutine stays runnable).
func (i *Interp) yield(fr *frame) {
	if i.sched == nil || (len(i.sched.gs) == 1 && !i.hasArmedTimer()) {
		return
	}
	i.block(fr, "yield", func() bool { return true })
}

// reschedule picks the next goroutine (or timer) to run and transfers control.
// Called by the current goroutine, returns when it is scheduled again.
func (i *Interp) reschedule() {
	s := i.sched
	me := i.curG
	for {
		// candidates: runnable goroutines and armed timers
		var runnable []*goroutine
		for _, g := range s.gs {
			if g.done {
				continue
			}
			if g.blocked == nil || g.blocked() {
				runnable = append(runnable, g)
			}
		}
		var armed []*vtimer
		for _, t := range s.timers {
			if !t.stopped && !t.fired {
				armed = append(armed, t)
			}
		}
		n := len(runnable) + len(armed)
		if n == 0 {
			if me.done {
				// finished goroutine with nothing else to run: hand back to main if it exists
				return
			}
			// quiescent with current goroutine blocked: deadlock for this goroutine
			panic(pathAbort{"deadlock", fmt.Sprintf("all goroutines blocked (current: %s)", me.what)})
		}
		s.switches++
		if s.switches > i.cfg.MaxSwitches {
			panic(pathAbort{"unwind", fmt.Sprintf("more than %d scheduling points", i.cfg.MaxSwitches)})
		}
		c := 0
		if n > 1 {
			c = i.choose(n, "schedule")
		}
		if c >= len(runnable) {
			// fire a timer: its callback runs in the current host goroutine as its own activity
			t := armed[c-len(runnable)]
			t.fired = true
			if t.at > s.now {
				s.now = t.at
			}
			t.fn()
			continue
		}
		g := runnable[c]
		if g == me {
			return
		}
		// transfer
		i.curG = g
		s.wake(g)
		// wait until someone schedules me again
		if me.done {
			return
		}
		s.park(me)
		i.curG = me
		if me.blocked == nil || me.blocked() {
			return
		}
		// woken but not ready (should not happen): loop
	}
}

func (i *Interp) goStart(fr *frame, instr *ssa.Go, fn value, args []value) {
	s := i.ensureSched()
	if len(s.gs) >= i.cfg.MaxGoroutines {
		panic(pathAbort{"unwind", fmt.Sprintf("more than %d goroutines", i.cfg.MaxGoroutines)})
	}
	g := &goroutine{id: s.nextID, resume: make(chan bool)}
	s.nextID++
	s.gs = append(s.gs, g)
	starter := i.curG
	go func() {
		defer func() {
			r := recover()
			g.done = true
			if r != nil {
				if _, killed := r.(goKill); killed {
					return
				}
				g.panicV = r
				// propagate to main goroutine: stored, main picks it up at next scheduling point
			}
			// pass control on
			i.finishGoroutine(g)
		}()
		s.park(g)
		fr2 := &frame{i: i, g: g}
		_ = fr2
		call(i, nil, token.NoPos, fn, args)
	}()
	_ = starter
	// starting a goroutine is a scheduling point
	i.yield(fr)
}

// spawn creates a runnable goroutine for fn(args) without making the creation a scheduling point
// (used for timer callbacks: time.AfterFunc runs its function in its own goroutine).
func (i *Interp) spawn(fn value, args []value) {
	s := i.ensureSched()
	if len(s.gs) >= i.cfg.MaxGoroutines+8 {
		panic(pathAbort{"unwind", fmt.Sprintf("more than %d goroutines (timer callbacks included)", i.cfg.MaxGoroutines+8)})
	}
	g := &goroutine{id: s.nextID, resume: make(chan bool)}
	s.nextID++
	s.gs = append(s.gs, g)
	go func() {
		defer func() {
			r := recover()
			g.done = true
			if r != nil {
				if _, killed := r.(goKill); killed {
					return
				}
				g.panicV = r
			}
			i.finishGoroutine(g)
		}()
		s.park(g)
		call(i, nil, token.NoPos, fn, args)
	}()
}

// afterFunc arms a virtual timer: from now on it may fire at any scheduling point (virtual time
// only orders timers among themselves); firing starts fn in its own goroutine.
func (i *Interp) afterFunc(d int64, fn value) *vtimer {
	s := i.ensureSched()
	t := &vtimer{at: s.now + d, id: len(s.timers)}
	t.fn = func() { i.spawn(fn, nil) }
	s.timers = append(s.timers, t)
	return t
}

// quiesceNow lets every other goroutine and armed timer run until none can; the caller resumes at
// quiescence (all others blocked or finished, no timer armed). Every schedule on the way is explored.
func (i *Interp) quiesceNow(fr *frame) {
	s := i.ensureSched()
	me := i.curG
	i.block(fr, "Quiesce", func() bool {
		for _, g := range s.gs {
			if g == me || g.done {
				continue
			}
			if g.blocked == nil || g.blocked() {
				return false
			}
		}
		return !i.hasArmedTimer()
	})
	i.checkChildPanic()
}

// finishGoroutine: goroutine g has returned; pick someone else to run (host goroutine exits after).
func (i *Interp) finishGoroutine(g *goroutine) {
	s := i.sched
	if s == nil {
		return // path already over
	}
	select {
	case <-s.dead:
		return
	default:
	}
	defer func() {
		// a pathAbort raised while choosing must reach the main goroutine
		if r := recover(); r != nil {
			g.panicV = r
			main := s.gs[0]
			i.curG = main
			s.wake(main)
		}
	}()
	if g.panicV != nil {
		main := s.gs[0]
		i.curG = main
		s.wake(main)
		return
	}
	for {
		var runnable []*goroutine
		for _, o := range s.gs {
			if !o.done && (o.blocked == nil || o.blocked()) {
				runnable = append(runnable, o)
			}
		}
		var armed []*vtimer
		for _, t := range s.timers {
			if !t.stopped && !t.fired {
				armed = append(armed, t)
			}
		}
		n := len(runnable) + len(armed)
		if n == 0 {
			// everyone blocked: wake main so that it reports quiescence/deadlock
			main := s.gs[0]
			i.curG = main
			s.wake(main)
			return
		}
		c := 0
		if n > 1 {
			c = i.choose(n, "schedule")
		}
		if c >= len(runnable) {
			t := armed[c-len(runnable)]
			t.fired = true
			if t.at > s.now {
				s.now = t.at
			}
			t.fn()
			continue
		}
		o := runnable[c]
		i.curG = o
		s.wake(o)
		return
	}
}

// checkChildPanic re-raises a panic/abort that happened in another goroutine.
func (i *Interp) checkChildPanic() {
	if i.sched == nil {
		return
	}
	for _, g := range i.sched.gs {
		if g.panicV != nil {
			p := g.panicV
			g.panicV = nil
			panic(p)
		}
	}
}

// quiesce runs after the harness function returned: lets remaining goroutines and timers
// run to quiescence (every schedule), so that "nothing is stuck" can be judged by harness code
// executed before return via zzverif.Quiesce; here we only drain to surface panics.
func (i *Interp) quiesce() {
	i.checkChildPanic()
}

func (i *Interp) killGoroutines() {
	if i.sched == nil {
		return
	}
	// closing dead reaches every goroutine of this path wherever it is: parked ones unwind now,
	// one that is between two scheduler operations unwinds at its next park/wake
	close(i.sched.dead)
	i.sched = nil
	i.curG = nil
}

func (i *Interp) sleep(fr *frame, d value) {
	if i.sched == nil {
		return
	}
	i.yield(fr)
}

// ---- channels ----

func (i *Interp) chanSend(fr *frame, c *channel, v value) {
	if c == nil {
		i.block(fr, "send on nil channel", func() bool { return false })
	}
	i.ensureSched()
	if c.closed {
		panic(targetPanic{v: iface{t: i.runtimeErrorString, v: "send on closed channel"}, runtime: true})
	}
	if c.cap_ > 0 {
		i.block(fr, "chan send", func() bool { return len(c.buf) < c.cap_ || c.closed })
		if c.closed {
			panic(targetPanic{v: iface{t: i.runtimeErrorString, v: "send on closed channel"}, runtime: true})
		}
		c.buf = append(c.buf, copyVal(v))
		i.yield(fr)
		return
	}
	// unbuffered: enqueue request, wait until a receiver takes it
	req := &sendReq{v: copyVal(v)}
	c.sendq = append(c.sendq, req)
	i.block(fr, "chan send (unbuffered)", func() bool { return req.taken || c.closed })
	i.checkChildPanic()
	if !req.taken {
		panic(targetPanic{v: iface{t: i.runtimeErrorString, v: "send on closed channel"}, runtime: true})
	}
}

func (c *channel) canRecv() bool {
	return len(c.buf) > 0 || len(c.sendq) > 0 || c.closed
}

func (i *Interp) chanRecv(fr *frame, c *channel) (value, bool) {
	if c == nil {
		i.block(fr, "receive from nil channel", func() bool { return false })
	}
	i.ensureSched()
	i.block(fr, "chan recv", c.canRecv)
	i.checkChildPanic()
	return i.chanTake(c)
}

func (i *Interp) chanTake(c *channel) (value, bool) {
	if len(c.buf) > 0 {
		v := c.buf[0]
		c.buf = c.buf[1:]
		return v, true
	}
	if len(c.sendq) > 0 {
		r := c.sendq[0]
		c.sendq = c.sendq[1:]
		r.taken = true
		return r.v, true
	}
	return nil, false // closed
}

func (i *Interp) chanClose(fr *frame, c *channel) {
	if c == nil {
		panic(targetPanic{v: iface{t: i.runtimeErrorString, v: "close of nil channel"}, runtime: true})
	}
	if c.closed {
		panic(targetPanic{v: iface{t: i.runtimeErrorString, v: "close of closed channel"}, runtime: true})
	}
	c.closed = true
	i.yield(fr)
}

func (i *Interp) selectStmt(fr *frame, instr *ssa.Select) value {
	i.ensureSched()
	type cs struct {
		c    *channel
		send bool
		v    value
	}
	var cases []cs
	for _, st := range instr.States {
		c, _ := fr.get(st.Chan).(*channel)
		if st.Dir == types.SendOnly {
			cases = append(cases, cs{c, true, fr.get(st.Send)})
		} else {
			cases = append(cases, cs{c, false, nil})
		}
	}
	readyIdx := func() []int {
		var r []int
		for j, k := range cases {
			if k.c == nil {
				continue
			}
			if k.send {
				if k.c.closed || (k.c.cap_ > 0 && len(k.c.buf) < k.c.cap_) || (k.c.cap_ == 0 && k.c.recvWaiting > 0) {
					r = append(r, j)
				}
			} else if k.c.canRecv() {
				r = append(r, j)
			}
		}
		return r
	}
	if instr.Blocking {
		for _, k := range cases {
			if !k.send && k.c != nil && k.c.cap_ == 0 {
				k.c.recvWaiting++
			}
		}
		i.block(fr, "select", func() bool { return len(readyIdx()) > 0 })
		for _, k := range cases {
			if !k.send && k.c != nil && k.c.cap_ == 0 {
				k.c.recvWaiting--
			}
		}
		i.checkChildPanic()
	} else {
		i.yield(fr)
	}
	ready := readyIdx()
	chosen := -1
	if len(ready) > 0 {
		chosen = ready[i.choose(len(ready), "select case")]
	}
	var recvV value
	recvOk := false
	if chosen >= 0 {
		k := cases[chosen]
		if k.send {
			if k.c.closed {
				panic(targetPanic{v: iface{t: i.runtimeErrorString, v: "send on closed channel"}, runtime: true})
			}
			if k.c.cap_ > 0 {
				k.c.buf = append(k.c.buf, copyVal(k.v))
			} else {
				req := &sendReq{v: copyVal(k.v)}
				k.c.sendq = append(k.c.sendq, req)
				i.block(fr, "select send rendezvous", func() bool { return req.taken })
			}
		} else {
			recvV, recvOk = i.chanTake(k.c)
		}
	}
	r := tuple{chosen, recvOk}
	for j, st := range instr.States {
		if st.Dir == types.RecvOnly {
			var v value
			if j == chosen && recvOk {
				v = recvV
			} else {
				v = zero(st.Chan.Type().Underlying().(*types.Chan).Elem())
			}
			r = append(r, v)
		}
	}
	return r
}
