package interp

import (
	"bytes"
	"fmt"
	"go/token"
	"go/types"
	"os"
	"unsafe"

	"golang.org/x/tools/go/ssa"

	"verif/gosx/smt"
)

// If the target program panics, the interpreter panics with this type.
type targetPanic struct {
	v       value
	runtime bool // raised by the runtime model (index, nil, divide, ...)
	fatal   bool // not recoverable (out of memory)
}

func (p targetPanic) String() string { return toString(p.v) }

type exitPanic int

// symptr is a pointer to elems[idx] with symbolic idx (already known in range).
type symptr struct {
	elems []value
	idx   sym
}

// strptr is the result of unsafe.StringData / unsafe.SliceData: pointer to first byte of a view.
type viewptr struct {
	s   []value // for slices
	str value   // for strings
}

func zero(t types.Type) value {
	switch t := t.(type) {
	case *types.Basic:
		if t.Kind() == types.UntypedNil {
			panic("untyped nil has no zero value")
		}
		if t.Info()&types.IsUntyped != 0 {
			t = types.Default(t).(*types.Basic)
		}
		switch t.Kind() {
		case types.Bool:
			return false
		case types.Int:
			return int(0)
		case types.Int8:
			return int8(0)
		case types.Int16:
			return int16(0)
		case types.Int32:
			return int32(0)
		case types.Int64:
			return int64(0)
		case types.Uint:
			return uint(0)
		case types.Uint8:
			return uint8(0)
		case types.Uint16:
			return uint16(0)
		case types.Uint32:
			return uint32(0)
		case types.Uint64:
			return uint64(0)
		case types.Uintptr:
			return uintptr(0)
		case types.Float32:
			return float32(0)
		case types.Float64:
			return float64(0)
		case types.Complex64:
			return complex64(0)
		case types.Complex128:
			return complex128(0)
		case types.String:
			return ""
		case types.UnsafePointer:
			return unsafe.Pointer(nil)
		default:
			panic(fmt.Sprint("zero for unexpected type:", t))
		}
	case *types.Pointer:
		return (*value)(nil)
	case *types.Array:
		a := make(array, t.Len())
		for i := range a {
			a[i] = zero(t.Elem())
		}
		return a
	case *types.Named:
		return zero(t.Underlying())
	case *types.Alias:
		return zero(types.Unalias(t))
	case *types.Interface:
		return iface{}
	case *types.Slice:
		return []value(nil)
	case *types.Struct:
		s := make(structure, t.NumFields())
		for i := range s {
			s[i] = zero(t.Field(i).Type())
		}
		return s
	case *types.Tuple:
		if t.Len() == 1 {
			return zero(t.At(0).Type())
		}
		s := make(tuple, t.Len())
		for i := range s {
			s[i] = zero(t.At(i).Type())
		}
		return s
	case *types.Chan:
		return (*channel)(nil)
	case *types.Map:
		return (*amap)(nil)
	case *types.Signature:
		return (*ssa.Function)(nil)
	case *types.TypeParam:
		panic("zero of type parameter")
	}
	panic(fmt.Sprint("zero: unexpected ", t))
}

// equals: concrete comparison (no symbolic parts anywhere).
func equals(t types.Type, x, y value) bool {
	switch x := x.(type) {
	case bool:
		return x == y.(bool)
	case int:
		return x == y.(int)
	case int8:
		return x == y.(int8)
	case int16:
		return x == y.(int16)
	case int32:
		return x == y.(int32)
	case int64:
		return x == y.(int64)
	case uint:
		return x == y.(uint)
	case uint8:
		return x == y.(uint8)
	case uint16:
		return x == y.(uint16)
	case uint32:
		return x == y.(uint32)
	case uint64:
		return x == y.(uint64)
	case uintptr:
		return x == y.(uintptr)
	case float32:
		return x == y.(float32)
	case float64:
		return x == y.(float64)
	case complex64:
		return x == y.(complex64)
	case complex128:
		return x == y.(complex128)
	case string:
		return x == y.(string)
	case *value:
		if yp, ok := y.(*value); ok {
			return x == yp
		}
		return false
	case *channel:
		return x == y.(*channel)
	case unsafe.Pointer:
		return x == y.(unsafe.Pointer)
	case viewptr:
		return false
	case symptr:
		return false
	}
	panic(fmt.Sprintf("comparing uncomparable type %s (%T)", t, x))
}

func concEqnil(t types.Type, x, y value) bool {
	if t != nil {
		switch t.Underlying().(type) {
		case *types.Map, *types.Signature, *types.Slice:
			return isNilRef(x) == isNilRef(y) && (isNilRef(x) || sameRef(x, y))
		}
	}
	return equals(t, x, y)
}

func sameRef(x, y value) bool {
	switch x := x.(type) {
	case *amap:
		return x == y.(*amap)
	}
	return true
}

func isNilRef(x value) bool {
	switch x := x.(type) {
	case *amap:
		return x == nil
	case *ssa.Function:
		return x == nil
	case *closure:
		return x == nil
	case *hostFn:
		return x == nil
	case []value:
		return x == nil
	}
	panic(fmt.Sprintf("isNilRef: %T", x))
}

// ---- pointers ----

// asPtr returns the native cell pointer behind a pointer value (forking for symbolic element pointers).
func (i *Interp) asPtr(p value) *value {
	switch p := p.(type) {
	case *value:
		return p
	case symptr:
		j := i.concretize(i.bvTerm(p.idx), "element pointer index")
		return &p.elems[j]
	case viewptr:
		if p.s != nil && len(p.s) > 0 {
			return &p.s[0]
		}
		panic(i.unsupported("dereference of string/empty-slice data pointer"))
	case unsafe.Pointer:
		if p == nil {
			return nil
		}
	case poison:
		panic(i.unsupported("use of value not computed during package init: " + p.why))
	}
	panic(i.unsupported(fmt.Sprintf("pointer of dynamic type %T", p)))
}

func (i *Interp) storeTo(T types.Type, p value, v value) {
	if sp, ok := p.(symptr); ok {
		// conditional store into every element
		c := i.ctx
		idx := i.bvTerm(sp.idx)
		w := idx.Sort.W
		okAll := true
		news := make([]value, len(sp.elems))
		for j := range sp.elems {
			if w < 31 && j >= 1<<uint(w) {
				news[j] = sp.elems[j]
				continue
			}
			m, ok := i.iteValue(c.Eq(idx, c.BVConst(uint64(j), w)), v, sp.elems[j])
			if !ok {
				okAll = false
				break
			}
			news[j] = m
		}
		if okAll {
			for j := range sp.elems {
				i.store(T, &sp.elems[j], news[j])
			}
			return
		}
	}
	a := i.asPtr(p)
	if a == nil {
		panic(i.runtimePanic("invalid memory address or nil pointer dereference"))
	}
	i.store(T, a, v)
}

func (i *Interp) loadFrom(T types.Type, p value) value {
	if sp, ok := p.(symptr); ok {
		if v, ok := i.selectElem(sp.elems, sp.idx); ok {
			return v
		}
		// elements that cannot be merged into one value (slices, pointers): case split over the
		// groups of identical elements - a 256-entry table with two non-nil entries is a 3-way split
		if v, ok := i.selectByGroups(sp); ok {
			return v
		}
	}
	a := i.asPtr(p)
	if a == nil {
		panic(i.runtimePanic("invalid memory address or nil pointer dereference"))
	}
	v := load(T, a)
	if ps, ok := v.(poison); ok {
		panic(i.unsupported("use of value not computed during package init: " + ps.why))
	}
	return v
}

func (i *Interp) selectByGroups(sp symptr) (value, bool) {
	c := i.ctx
	t := i.bvTerm(sp.idx)
	w := t.Sort.W
	n := len(sp.elems)
	if w < 31 && n > 1<<uint(w) {
		n = 1 << uint(w)
	}
	type group struct {
		rep  value
		cond *smt.Term
	}
	var gs []group
	for j := 0; j < n; j++ {
		eq := c.Eq(t, c.BVConst(uint64(j), w))
		found := false
		for k := range gs {
			if sameValueIdentity(gs[k].rep, sp.elems[j]) {
				gs[k].cond = c.Or(gs[k].cond, eq)
				found = true
				break
			}
		}
		if !found {
			if len(gs) >= i.cfg.MaxConcretize {
				return nil, false
			}
			gs = append(gs, group{rep: sp.elems[j], cond: eq})
		}
	}
	for k := range gs {
		if k == len(gs)-1 || i.decide(gs[k].cond) {
			return copyVal(gs[k].rep), true
		}
	}
	return nil, false
}

// selectElem builds elems[idx] as an ite chain (idx known to be in range).
func (i *Interp) selectElem(elems []value, idx sym) (value, bool) {
	c := i.ctx
	t := i.bvTerm(idx)
	w := t.Sort.W
	n := len(elems)
	if n == 0 {
		return nil, false
	}
	if w < 31 && n > 1<<uint(w) {
		n = 1 << uint(w)
	}
	if n > i.cfg.MaxIte {
		return nil, false
	}
	res := copyVal(elems[n-1])
	for j := n - 2; j >= 0; j-- {
		m, ok := i.iteValue(c.Eq(t, c.BVConst(uint64(j), w)), elems[j], res)
		if !ok {
			return nil, false
		}
		res = m
	}
	return res, true
}

// inRange decides 0 <= idx < n for symbolic idx; panics (target) when out of range.
func (i *Interp) checkIndex(idx sym, n int) {
	c := i.ctx
	var ok *smt.Term
	if idx.t.Sort.K == smt.KInt {
		ok = c.And(c.ILe(c.IntConst64(0), idx.t), c.ILt(idx.t, c.IntConst64(int64(n))))
	} else {
		t := idx.t
		if t.Sort.W < 64 {
			if kindSigned(idx.k) {
				t = c.SignExt(t, 64)
			} else {
				t = c.ZeroExt(t, 64)
			}
		}
		// unsigned compare covers negative signed values too
		ok = c.BVUlt(t, c.BVConst(uint64(n), 64))
	}
	if !i.decide(ok) {
		panic(i.runtimePanic(fmt.Sprintf("index out of range [symbolic] with length %d", n)))
	}
}

func (i *Interp) indexAddr(x, idx value) value {
	var elems []value
	switch x := x.(type) {
	case []value:
		elems = x
	case *value:
		if x == nil {
			panic(i.runtimePanic("invalid memory address or nil pointer dereference"))
		}
		elems = (*x).(array)
	case symptr:
		elems = (*i.asPtr(x)).(array)
	default:
		panic(fmt.Sprintf("unexpected x type in IndexAddr: %T", x))
	}
	if s, ok := idx.(sym); ok {
		i.checkIndex(s, len(elems))
		if len(elems) == 1 {
			return &elems[0]
		}
		if i.cfg.ConcretizeIndex {
			// case split over the feasible index values (one forced decision when the path
			// condition already fixes the index) instead of conditional loads/stores
			return &elems[i.concreteInt(s, "slice index")]
		}
		return symptr{elems: elems, idx: s}
	}
	j := asInt64(idx)
	if j < 0 || j >= int64(len(elems)) {
		panic(i.runtimePanic(fmt.Sprintf("index out of range [%d] with length %d", j, len(elems))))
	}
	return &elems[j]
}

func (i *Interp) index(x, idx value) value {
	switch xv := x.(type) {
	case array:
		if s, ok := idx.(sym); ok {
			i.checkIndex(s, len(xv))
			if v, ok := i.selectElem(xv, s); ok {
				return v
			}
			if v, ok := i.selectByGroups(symptr{elems: xv, idx: s}); ok {
				return v
			}
			return copyVal(xv[i.concretize(i.bvTerm(s), "array index")])
		}
		j := asInt64(idx)
		if j < 0 || j >= int64(len(xv)) {
			panic(i.runtimePanic(fmt.Sprintf("index out of range [%d] with length %d", j, len(xv))))
		}
		return xv[j]
	case string, symstr:
		n, _ := strLen(x)
		if s, ok := idx.(sym); ok {
			i.checkIndex(s, n)
			if n <= i.cfg.MaxIte {
				v, _ := i.selectElem(strBytes(x), s)
				return v
			}
			return strByte(x, int(i.concretize(i.bvTerm(s), "string index")))
		}
		j := asInt64(idx)
		if j < 0 || j >= int64(n) {
			panic(i.runtimePanic(fmt.Sprintf("index out of range [%d] with length %d", j, n)))
		}
		return strByte(x, int(j))
	}
	panic(fmt.Sprintf("unexpected x type in Index: %T", x))
}

// concreteInt returns the concrete int64 value of v, forking over feasible values if symbolic.
func (i *Interp) concreteInt(v value, what string) int64 {
	if s, ok := v.(sym); ok {
		if s.t.Sort.K == smt.KInt {
			return i.concretizeInt(s, what)
		}
		u := i.concretize(s.t, what)
		w := kindWidth(s.k)
		if kindSigned(s.k) && w < 64 {
			return int64(u<<uint(64-w)) >> uint(64-w)
		}
		return int64(u)
	}
	return asInt64(v)
}

func (i *Interp) allocLen(v value, what string) int {
	return int(i.concreteInt(v, what))
}

func (i *Interp) slice(x, lo, hi, max value) value {
	var Len, Cap int
	switch xv := x.(type) {
	case string:
		Len = len(xv)
		Cap = Len
	case symstr:
		Len = len(xv.b)
		Cap = Len
	case []value:
		Len = len(xv)
		Cap = cap(xv)
	case *value:
		if xv == nil {
			panic(i.runtimePanic("invalid memory address or nil pointer dereference"))
		}
		a := (*xv).(array)
		Len = len(a)
		Cap = cap(a)
	}
	l := int64(0)
	if lo != nil {
		l = i.concreteInt(lo, "slice low bound")
	}
	h := int64(Len)
	if hi != nil {
		h = i.concreteInt(hi, "slice high bound")
	}
	m := int64(Cap)
	if max != nil {
		m = i.concreteInt(max, "slice max bound")
	}
	limit := int64(Cap)
	if _, isStr := strLen(x); isStr {
		limit = int64(Len)
	}
	if l < 0 || h < l || m < h || m > limit || h > limit {
		panic(i.runtimePanic(fmt.Sprintf("slice bounds out of range [%d:%d:%d] with capacity %d", l, h, m, limit)))
	}
	switch xv := x.(type) {
	case string:
		return xv[l:h]
	case symstr:
		return i.mkStr(xv.b[l:h])
	case []value:
		return xv[l:h:m]
	case *value:
		a := (*xv).(array)
		return []value(a)[l:h:m]
	}
	panic(fmt.Sprintf("slice: unexpected X type: %T", x))
}

func (i *Interp) lookup(instr *ssa.Lookup, x, idx value) value {
	switch xv := x.(type) {
	case *amap:
		v, ok := i.mapLookup(xv, idx)
		if !ok {
			v = zero(instr.X.Type().Underlying().(*types.Map).Elem())
		} else {
			v = copyVal(v)
		}
		if instr.CommaOk {
			v = tuple{v, ok}
		}
		return v
	case poison:
		panic(i.unsupported("use of value not computed during package init: " + xv.why))
	}
	panic(fmt.Sprintf("unexpected x type in Lookup: %T", x))
}

func hasSym(v value) bool {
	switch v := v.(type) {
	case sym, symstr:
		return true
	case structure:
		for _, e := range v {
			if hasSym(e) {
				return true
			}
		}
	case array:
		for _, e := range v {
			if hasSym(e) {
				return true
			}
		}
	case iface:
		return v.t != nil && hasSym(v.v)
	}
	return false
}

func (i *Interp) binop(op token.Token, t types.Type, x, y value) value {
	if p, ok := x.(poison); ok {
		panic(i.unsupported("use of value not computed during package init: " + p.why))
	}
	if p, ok := y.(poison); ok {
		panic(i.unsupported("use of value not computed during package init: " + p.why))
	}
	_, xs := x.(sym)
	_, ys := y.(sym)
	if xs || ys {
		return i.symBinop(op, x, y)
	}
	_, xss := x.(symstr)
	_, yss := y.(symstr)
	if xss || yss {
		return i.symStrBinop(op, x, y)
	}
	switch op {
	case token.EQL, token.NEQ:
		switch x.(type) {
		case structure, array, iface:
			r := i.equalsV(t, x, y)
			if op == token.NEQ {
				if b, ok := r.(bool); ok {
					return !b
				}
				return i.mkBool(i.ctx.Not(r.(sym).t))
			}
			return r
		case *value, symptr, viewptr, unsafe.Pointer:
			eq := ptrEq(x, y)
			if op == token.NEQ {
				return !eq
			}
			return eq
		}
	case token.QUO, token.REM:
		switch y.(type) {
		case float32, float64, complex64, complex128:
		default:
			if rawBits(y) == 0 {
				panic(i.runtimePanic("integer divide by zero"))
			}
		}
	case token.SHL, token.SHR:
		if _, ok := asUnsigned(y); !ok {
			panic(i.runtimePanic("negative shift amount"))
		}
	}
	return concBinop(op, t, x, y)
}

func ptrEq(x, y value) bool {
	xp, ok1 := x.(*value)
	yp, ok2 := y.(*value)
	if ok1 && ok2 {
		return xp == yp
	}
	xu, ok1 := x.(unsafe.Pointer)
	yu, ok2 := y.(unsafe.Pointer)
	if ok1 && ok2 {
		return xu == yu
	}
	if ok1 && xu == nil {
		if yp, ok := y.(*value); ok {
			return yp == nil
		}
	}
	return false
}

func (i *Interp) unop(fr *frame, instr *ssa.UnOp, x value) value {
	switch instr.Op {
	case token.ARROW:
		v, ok := i.chanRecv(fr, x.(*channel))
		if !ok {
			v = zero(instr.X.Type().Underlying().(*types.Chan).Elem())
		}
		if instr.CommaOk {
			v = tuple{v, ok}
		}
		return v
	case token.MUL:
		return i.loadFrom(deref(instr.X.Type()), x)
	}
	if s, ok := x.(sym); ok {
		return i.symUnop(instr.Op, s)
	}
	if p, ok := x.(poison); ok {
		panic(i.unsupported("use of value not computed during package init: " + p.why))
	}
	return concUnop(instr, x)
}

func typeAssert(i *Interp, instr *ssa.TypeAssert, itf iface) value {
	var v value
	err := ""
	if itf.t == nil {
		err = fmt.Sprintf("interface conversion: interface is nil, not %s", instr.AssertedType)
	} else if idst, ok := instr.AssertedType.Underlying().(*types.Interface); ok {
		v = itf
		err = checkInterface(i, idst, itf)
	} else if types.Identical(itf.t, instr.AssertedType) {
		v = itf.v
	} else {
		err = fmt.Sprintf("interface conversion: interface is %s, not %s", itf.t, instr.AssertedType)
	}
	if err != "" {
		if !instr.CommaOk {
			panic(targetPanic{v: iface{t: i.runtimeErrorString, v: err}, runtime: true})
		}
		return tuple{zero(instr.AssertedType), false}
	}
	if instr.CommaOk {
		return tuple{v, true}
	}
	return v
}

func checkInterface(i *Interp, itype *types.Interface, x iface) string {
	if meth, _ := types.MissingMethod(x.t, itype, true); meth != nil {
		return fmt.Sprintf("interface conversion: %v is not %v: missing method %s", x.t, itype, meth.Name())
	}
	return ""
}

// appendValues implements append with logged in-place writes.
func (i *Interp) appendValues(dst []value, src []value) []value {
	if len(src) == 0 {
		return dst
	}
	n := len(dst)
	if n+len(src) <= cap(dst) {
		out := dst[:n+len(src)]
		for j, e := range src {
			i.setCell(&out[n+j], copyVal(e))
		}
		return out
	}
	newcap := cap(dst) * 2
	if newcap < n+len(src) {
		newcap = n + len(src)
	}
	out := make([]value, n+len(src), newcap)
	for j := 0; j < n; j++ {
		out[j] = dst[j]
	}
	for j, e := range src {
		out[n+j] = copyVal(e)
	}
	return out
}

func (i *Interp) callBuiltin(caller *frame, callpos token.Pos, fn *ssa.Builtin, args []value) value {
	switch fn.Name() {
	case "append":
		if len(args) == 1 {
			return args[0]
		}
		if _, ok := strLen(args[1]); ok {
			return i.appendValues(args[0].([]value), strBytes(args[1]))
		}
		return i.appendValues(args[0].([]value), args[1].([]value))

	case "copy":
		var src []value
		if _, ok := strLen(args[1]); ok {
			src = strBytes(args[1])
		} else {
			src = args[1].([]value)
		}
		dst := args[0].([]value)
		n := len(dst)
		if len(src) < n {
			n = len(src)
		}
		if n > 0 && len(dst) > 0 && len(src) > 0 && &dst[0] != &src[0] {
			// overlapping copies: use temp
			tmp := make([]value, n)
			copy(tmp, src[:n])
			for j := 0; j < n; j++ {
				i.setCell(&dst[j], copyVal(tmp[j]))
			}
		}
		return n

	case "close":
		i.chanClose(caller, args[0].(*channel))
		return nil

	case "delete":
		i.mapDelete(args[0].(*amap), args[1])
		return nil

	case "clear":
		switch x := args[0].(type) {
		case *amap:
			i.mapClear(x)
		case []value:
			if len(x) > 0 {
				T := fn.Type().(*types.Signature).Params().At(0).Type().Underlying().(*types.Slice).Elem()
				for j := range x {
					i.store(T, &x[j], zero(T))
				}
			}
		}
		return nil

	case "print", "println":
		ln := fn.Name() == "println"
		var buf bytes.Buffer
		for j, arg := range args {
			if j > 0 && ln {
				buf.WriteRune(' ')
			}
			buf.WriteString(toString(arg))
		}
		if ln {
			buf.WriteRune('\n')
		}
		if i.trace {
			os.Stderr.Write(buf.Bytes())
		}
		return nil

	case "len":
		switch x := args[0].(type) {
		case string:
			return len(x)
		case symstr:
			return len(x.b)
		case array:
			return len(x)
		case *value:
			return len((*x).(array))
		case []value:
			return len(x)
		case *amap:
			return x.len()
		case *channel:
			return i.chanLen(x)
		default:
			panic(fmt.Sprintf("len: illegal operand: %T", x))
		}

	case "cap":
		switch x := args[0].(type) {
		case array:
			return cap(x)
		case *value:
			return cap((*x).(array))
		case []value:
			return cap(x)
		case *channel:
			return x.capacity()
		default:
			panic(fmt.Sprintf("cap: illegal operand: %T", x))
		}

	case "min":
		return foldLeft(i.min, args)
	case "max":
		return foldLeft(i.max, args)

	case "real", "imag", "complex":
		panic(i.unsupported("complex numbers"))

	case "panic":
		panic(targetPanic{v: args[0]})

	case "recover":
		return doRecover(caller)

	case "ssa:wrapnilchk":
		recv := args[0]
		if p, ok := recv.(*value); ok && p == nil {
			panic(i.runtimePanic(fmt.Sprintf("value method (%s).%s called using nil pointer", toString(args[1]), toString(args[2]))))
		}
		return recv

	case "ssa:deferstack":
		return &caller.defers

	// unsafe builtins (views only)
	case "SliceData":
		s := args[0].([]value)
		return viewptr{s: s[:len(s):cap(s)]}
	case "StringData":
		return viewptr{str: args[0]}
	case "String":
		n := int(i.concreteInt(args[1], "unsafe.String len"))
		switch p := args[0].(type) {
		case viewptr:
			if p.str != nil {
				return i.slice(p.str, 0, n, nil)
			}
			if n > cap(p.s) {
				panic(i.unsupported("unsafe.String beyond backing array"))
			}
			return i.mkStr(p.s[:n])
		case *value:
			if n == 0 {
				return ""
			}
			if n == 1 {
				return i.mkStr([]value{*p})
			}
		}
		if n == 0 {
			return ""
		}
		panic(i.unsupported(fmt.Sprintf("unsafe.String on %T", args[0])))
	case "Slice":
		n := int(i.concreteInt(args[1], "unsafe.Slice len"))
		switch p := args[0].(type) {
		case viewptr:
			if p.str != nil {
				b := strBytes(p.str)
				cp := make([]value, n)
				copy(cp, b[:n])
				i.note("unsafe.Slice over string data: modelled as a copy (read-only use assumed)")
				return cp
			}
			if n > cap(p.s) {
				panic(i.unsupported("unsafe.Slice beyond backing array"))
			}
			return p.s[:n:n]
		}
		if n == 0 {
			return []value(nil)
		}
		panic(i.unsupported(fmt.Sprintf("unsafe.Slice on %T", args[0])))
	case "Add":
		panic(i.unsupported("unsafe.Add"))
	}

	panic("unknown built-in: " + fn.Name())
}

func (i *Interp) min(x, y value) value {
	if isSym(x) || isSym(y) {
		if kindIsFloat(kindOfValue(x)) && !(isFloatInt(x) || isFloatInt(y)) {
			panic(i.unsupported("symbolic float min builtin"))
		}
		c := i.boolTerm(i.binop(token.LSS, nil, y, x))
		v, _ := i.iteValue(c, y, x)
		return v
	}
	switch x := x.(type) {
	case float32:
		return fmin(x, y.(float32))
	case float64:
		return fmin(x, y.(float64))
	}
	if i.binop(token.LSS, nil, y, x).(bool) {
		return y
	}
	return x
}

func (i *Interp) max(x, y value) value {
	if isSym(x) || isSym(y) {
		if kindIsFloat(kindOfValue(x)) && !(isFloatInt(x) || isFloatInt(y)) {
			panic(i.unsupported("symbolic float max builtin"))
		}
		c := i.boolTerm(i.binop(token.GTR, nil, y, x))
		v, _ := i.iteValue(c, y, x)
		return v
	}
	switch x := x.(type) {
	case float32:
		return fmax(x, y.(float32))
	case float64:
		return fmax(x, y.(float64))
	}
	if i.binop(token.GTR, nil, y, x).(bool) {
		return y
	}
	return x
}


// strIter ranges over a string, decoding runes with the target's own unicode/utf8 code
// when bytes are symbolic.
type strIter struct {
	i   *Interp
	fr  *frame
	s   value
	pos int
}

func (it *strIter) next() tuple {
	n, _ := strLen(it.s)
	if it.pos >= n {
		return tuple{false, nil, nil}
	}
	rest := it.i.slice(it.s, it.pos, nil, nil)
	if cs, ok := rest.(string); ok {
		for _, r := range cs {
			sz := len(string(r))
			if r == 0xFFFD {
				// could be an invalid byte (width 1) or a real U+FFFD (width 3)
				if !(len(cs) >= 3 && cs[0] == 0xEF && cs[1] == 0xBF && cs[2] == 0xBD) {
					sz = 1
				}
			}
			p := it.pos
			it.pos += sz
			return tuple{true, p, r}
		}
	}
	fn := it.i.stdFunc("unicode/utf8", "DecodeRuneInString")
	res := callSSA(it.i, it.fr, token.NoPos, fn, []value{rest}, nil).(tuple)
	sz := int(it.i.concreteInt(res[1], "rune width"))
	p := it.pos
	it.pos += sz
	return tuple{true, p, res[0]}
}

func (i *Interp) stdFunc(pkgPath, name string) *ssa.Function {
	p := i.prog.ImportedPackage(pkgPath)
	if p == nil {
		panic(i.unsupported("package not loaded: " + pkgPath))
	}
	i.ex.buildPkg(p)
	f := p.Func(name)
	if f == nil {
		panic(i.unsupported("function not found: " + pkgPath + "." + name))
	}
	return f
}

func (i *Interp) rangeIter(fr *frame, x value, t types.Type) iter {
	switch xv := x.(type) {
	case *amap:
		var keys []value
		if xv != nil {
			keys = append(keys, xv.keys...)
		}
		if n := len(keys); n >= 2 && n <= i.cfg.MapPermMax {
			// Go leaves map iteration order open: explore every order (forked choice).
			perm := i.choosePerm(n)
			k2 := make([]value, n)
			for j, p := range perm {
				k2[j] = keys[p]
			}
			keys = k2
		} else if len(keys) >= 2 {
			i.note("map with more entries than MapPermMax iterated in insertion order")
		}
		return &amapIter{i: i, m: xv, keys: keys}
	case string, symstr:
		return &strIter{i: i, fr: fr, s: x}
	case poison:
		panic(i.unsupported("use of value not computed during package init: " + xv.why))
	}
	panic(fmt.Sprintf("cannot range over %T", x))
}

func basicKindOf(t types.Type) (types.BasicKind, bool) {
	if b, ok := t.Underlying().(*types.Basic); ok {
		k := b.Kind()
		switch k {
		case types.UntypedInt:
			k = types.Int
		case types.UntypedFloat:
			k = types.Float64
		case types.UntypedRune:
			k = types.Int32
		case types.UntypedBool:
			k = types.Bool
		}
		return k, true
	}
	return 0, false
}

func (i *Interp) conv(t_dst, t_src types.Type, x value) value {
	if p, ok := x.(poison); ok {
		panic(i.unsupported("use of value not computed during package init: " + p.why))
	}
	ut_src := t_src.Underlying()
	ut_dst := t_dst.Underlying()
	if s, ok := x.(sym); ok {
		if db, ok := ut_dst.(*types.Basic); ok {
			if db.Kind() == types.String {
				// string(rune): encode with the target's utf8.AppendRune
				fn := i.stdFunc("unicode/utf8", "AppendRune")
				r := i.symConv(types.Int32, s)
				res := callSSA(i, nil, token.NoPos, fn, []value{[]value(nil), r}, nil).([]value)
				return i.mkStr(res)
			}
			k, _ := basicKindOf(t_dst)
			return i.symConv(k, s)
		}
		panic(i.unsupported(fmt.Sprintf("conversion of symbolic %v to %v", t_src, t_dst)))
	}
	switch src := ut_src.(type) {
	case *types.Slice:
		if db, ok := ut_dst.(*types.Basic); ok && db.Kind() == types.String {
			xs := x.([]value)
			if eb, ok := src.Elem().Underlying().(*types.Basic); ok && eb.Kind() == types.Byte {
				return i.mkStr(xs)
			}
			// []rune -> string
			for _, e := range xs {
				if isSym(e) {
					fn := i.stdFunc("unicode/utf8", "AppendRune")
					var acc value = []value(nil)
					for _, e2 := range xs {
						acc = callSSA(i, nil, token.NoPos, fn, []value{acc, e2}, nil)
					}
					return i.mkStr(acc.([]value))
				}
			}
		}
	case *types.Basic:
		if ss, ok := x.(symstr); ok {
			switch d := ut_dst.(type) {
			case *types.Basic:
				return ss
			case *types.Slice:
				if eb := d.Elem().Underlying().(*types.Basic); eb.Kind() == types.Byte {
					out := make([]value, len(ss.b))
					copy(out, ss.b)
					return out
				}
				// []rune(symstr)
				it := &strIter{i: i, s: ss}
				var out []value
				for {
					tp := it.next()
					if !tp[0].(bool) {
						break
					}
					out = append(out, tp[2])
				}
				return out
			}
		}
		if src.Kind() == types.UnsafePointer {
			// unsafe.Pointer -> *T : keep the underlying engine pointer
			switch x.(type) {
			case *value, viewptr, symptr:
				i.note("unsafe.Pointer cast kept as the same engine pointer (type-punning not modelled)")
				return x
			}
		}
	case *types.Pointer:
		if db, ok := ut_dst.(*types.Basic); ok && db.Kind() == types.UnsafePointer {
			return x // keep engine pointer
		}
	}
	return concConv(t_dst, t_src, x)
}

func (i *Interp) sliceToArrayPointer(t_dst, t_src types.Type, x value) value {
	if _, ok := t_src.Underlying().(*types.Slice); ok {
		if ptr, ok := t_dst.Underlying().(*types.Pointer); ok {
			if arr, ok := ptr.Elem().Underlying().(*types.Array); ok {
				x := x.([]value)
				if arr.Len() > int64(len(x)) {
					panic(i.runtimePanic("cannot convert slice with length to array or pointer to array with greater length"))
				}
				if x == nil {
					return zero(t_dst)
				}
				v := value(array(x[:arr.Len()]))
				return &v
			}
		}
	}
	panic(fmt.Sprintf("unsupported conversion: %s  -> %s, dynamic type %T", t_src, t_dst, x))
}
