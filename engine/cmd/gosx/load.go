package main

import (
	"fmt"
	"os"
	"path/filepath"
	"strings"

	"golang.org/x/tools/go/packages"
	"golang.org/x/tools/go/ssa"
	"golang.org/x/tools/go/ssa/ssautil"
)

const repoDir = "/repo"
const modPath = "github.com/VKCOM/statshouse"

type loaded struct {
	prog *ssa.Program
	pkgs []*packages.Package
	spkg *ssa.Package
}

// loadPackage loads pkgPath (relative import path inside the module, e.g. "internal/format")
// from /repo's working tree with the harness files overlaid in-package.
func loadPackage(pkgRel string, harnessFiles []string, extraTags string) (*loaded, error) {
	overlay := map[string][]byte{}
	zz, err := os.ReadFile(filepath.Join(verifDir(), "harness/zzverif/zzverif.go"))
	if err != nil {
		return nil, err
	}
	overlay[filepath.Join(repoDir, "internal/zzverif/zzverif.go")] = zz
	for _, hf := range harnessFiles {
		b, err := os.ReadFile(hf)
		if err != nil {
			return nil, err
		}
		overlay[filepath.Join(repoDir, pkgRel, "zz_verif_"+filepath.Base(hf))] = b
	}
	tags := "verif"
	if extraTags != "" {
		tags += "," + extraTags
	}
	cfg := &packages.Config{
		Mode:       packages.LoadAllSyntax,
		Dir:        repoDir,
		Overlay:    overlay,
		BuildFlags: []string{"-tags=" + tags, "-mod=mod"},
		Env:        append(os.Environ(), "GOFLAGS=-mod=mod", "GOPROXY=off", "CGO_ENABLED=1"),
	}
	pkgs, err := packages.Load(cfg, modPath+"/"+pkgRel, "runtime", "unicode/utf8", "errors", "fmt")
	if err != nil {
		return nil, err
	}
	nerr := 0
	packages.Visit(pkgs, nil, func(p *packages.Package) {
		for _, e := range p.Errors {
			if nerr < 10 {
				fmt.Fprintf(os.Stderr, "load error: %s: %v\n", p.PkgPath, e)
			}
			nerr++
		}
	})
	if nerr > 0 {
		return nil, fmt.Errorf("%d package load errors", nerr)
	}
	prog, spkgs := ssautil.AllPackages(pkgs, ssa.InstantiateGenerics|ssa.SanityCheckFunctions&0)
	var target *ssa.Package
	for j, p := range pkgs {
		if strings.HasSuffix(p.PkgPath, pkgRel) && p.PkgPath == modPath+"/"+pkgRel {
			target = spkgs[j]
		}
	}
	if target == nil {
		return nil, fmt.Errorf("target package %s not found", pkgRel)
	}
	target.Build()
	return &loaded{prog: prog, pkgs: pkgs, spkg: target}, nil
}

func verifDir() string {
	if d := os.Getenv("VERIF_DIR"); d != "" {
		return d
	}
	return "/verif"
}
