package main

import (
	"fmt"
	"os"
	"os/exec"
	"path/filepath"
	"strings"

	"golang.org/x/tools/go/packages"
	"golang.org/x/tools/go/ssa"
	"golang.org/x/tools/go/ssa/ssautil"
)

// repoDir is /repo; VERIF_REPO points the same machinery at a scratch worktree (seeded-change
// trials) - evidence and replays of such runs go under .work/alt and never into evidence/.
var repoDir = func() string {
	if d := os.Getenv("VERIF_REPO"); d != "" {
		return d
	}
	return "/repo"
}()

func outDir(sub string) string {
	if repoDir != "/repo" {
		return filepath.Join(verifDir(), ".work", "alt", sub)
	}
	return filepath.Join(verifDir(), sub)
}
const modPath = "github.com/VKCOM/statshouse"

type loaded struct {
	prog *ssa.Program
	pkgs []*packages.Package
	spkg *ssa.Package
}

// loadPackage loads pkgPath (relative import path inside the module, e.g. "internal/format")
// from /repo's working tree with the harness files overlaid in-package.
func loadPackage(pkgRel string, harnessFiles []string, extraTags string) (*loaded, error) {
	overlay := map[string][]byte{}
	zz, err := os.ReadFile(filepath.Join(verifDir(), "harness/zzverif/zzverif.go"))
	if err != nil {
		return nil, err
	}
	overlay[filepath.Join(repoDir, "internal/zzverif/zzverif.go")] = zz
	for _, hf := range harnessFiles {
		b, err := os.ReadFile(hf)
		if err != nil {
			return nil, err
		}
		overlay[filepath.Join(repoDir, pkgRel, "zz_verif_"+filepath.Base(hf))] = b
	}
	if rp, rb, err := randOverlay(); err != nil {
		return nil, err
	} else {
		overlay[rp] = rb
	}
	tags := "verif"
	if extraTags != "" {
		tags += "," + extraTags
	}
	cfg := &packages.Config{
		Mode:       packages.LoadAllSyntax,
		Dir:        repoDir,
		Overlay:    overlay,
		BuildFlags: []string{"-tags=" + tags, "-mod=mod"},
		Env:        append(os.Environ(), "GOFLAGS=-mod=mod", "GOPROXY=off", "CGO_ENABLED=1"),
	}
	pkgs, err := packages.Load(cfg, modPath+"/"+pkgRel, "runtime", "unicode/utf8", "errors", "fmt")
	if err != nil {
		return nil, err
	}
	nerr := 0
	packages.Visit(pkgs, nil, func(p *packages.Package) {
		for _, e := range p.Errors {
			if nerr < 10 {
				fmt.Fprintf(os.Stderr, "load error: %s: %v\n", p.PkgPath, e)
			}
			nerr++
		}
	})
	if nerr > 0 {
		return nil, fmt.Errorf("%d package load errors", nerr)
	}
	prog, spkgs := ssautil.AllPackages(pkgs, ssa.InstantiateGenerics|ssa.SanityCheckFunctions&0)
	var target *ssa.Package
	for j, p := range pkgs {
		if strings.HasSuffix(p.PkgPath, pkgRel) && p.PkgPath == modPath+"/"+pkgRel {
			target = spkgs[j]
		}
	}
	if target == nil {
		return nil, fmt.Errorf("target package %s not found", pkgRel)
	}
	target.Build()
	return &loaded{prog: prog, pkgs: pkgs, spkg: target}, nil
}

func verifDir() string {
	if d := os.Getenv("VERIF_DIR"); d != "" {
		return d
	}
	return "/verif"
}

// randOverlay returns a patched copy of pgregory.net/rand's rand.go (the version /repo's go.mod
// selects): every drawing method first consults the package-level VerifDraw hook, which the
// native zzverif sets to its replay tape. The engine intercepts the same methods as solver
// variables, so random draws are inputs on both sides and counterexamples replay natively.
var randOv struct {
	path string
	data []byte
	err  error
	done bool
}

func randOverlay() (string, []byte, error) {
	if randOv.done {
		return randOv.path, randOv.data, randOv.err
	}
	randOv.done = true
	cmd := exec.Command("go", "list", "-mod=mod", "-m", "-f", "{{.Dir}}", "pgregory.net/rand")
	cmd.Dir = repoDir
	cmd.Env = append(os.Environ(), "GOFLAGS=-mod=mod", "GOPROXY=off")
	out, err := cmd.Output()
	if err != nil {
		randOv.err = fmt.Errorf("locating pgregory.net/rand: %v", err)
		return "", nil, randOv.err
	}
	dir := strings.TrimSpace(string(out))
	p := filepath.Join(dir, "rand.go")
	b, err := os.ReadFile(p)
	if err != nil {
		randOv.err = err
		return "", nil, err
	}
	src := string(b)
	hooks := []struct{ sig, body string }{
		{"func (r *Rand) Float64() float64 {", "return math.Float64frombits(VerifDraw(\"f64\", 0))"},
		{"func (r *Rand) Float32() float32 {", "return math.Float32frombits(uint32(VerifDraw(\"f32\", 0)))"},
		{"func (r *Rand) Uint64n(n uint64) uint64 {", "return VerifDraw(\"u64n\", n)"},
		{"func (r *Rand) Uint32n(n uint32) uint32 {", "return uint32(VerifDraw(\"u32n\", uint64(n)))"},
		{"func (r *Rand) Uint64() uint64 {", "return VerifDraw(\"u64\", 0)"},
		{"func (r *Rand) Uint32() uint32 {", "return uint32(VerifDraw(\"u32\", 0))"},
	}
	for _, h := range hooks {
		if strings.Count(src, h.sig) != 1 {
			randOv.err = fmt.Errorf("pgregory.net/rand: cannot patch %q", h.sig)
			return "", nil, randOv.err
		}
		src = strings.Replace(src, h.sig, h.sig+"\n\tif VerifDraw != nil {\n\t\t"+h.body+"\n\t}", 1)
	}
	src += "\n// VerifDraw, when set, supplies every random draw (verification replay hook).\nvar VerifDraw func(kind string, n uint64) uint64\n"
	randOv.path, randOv.data = p, []byte(src)
	return randOv.path, randOv.data, nil
}
