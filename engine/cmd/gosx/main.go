// gosx: bounded symbolic execution of go/ssa with an SMT solver.
package main

import (
	"encoding/json"
	"flag"
	"fmt"
	"go/types"
	"os"
	"sort"
	"strings"
	"time"

	"verif/gosx/interp"
)

func main() {
	if len(os.Args) < 2 {
		fmt.Fprintln(os.Stderr, "usage: gosx run|check ...")
		os.Exit(2)
	}
	switch os.Args[1] {
	case "run":
		os.Exit(cmdRun(os.Args[2:]))
	case "check":
		os.Exit(cmdCheck(os.Args[2:]))
	default:
		fmt.Fprintln(os.Stderr, "unknown command", os.Args[1])
		os.Exit(2)
	}
}

// cmdRun: explore harness functions of one package; prints one summary JSON per harness.
func cmdRun(args []string) int {
	fs := flag.NewFlagSet("run", flag.ExitOnError)
	pkg := fs.String("pkg", "", "package dir relative to module root, e.g. internal/format")
	files := fs.String("files", "", "comma-separated harness files")
	fns := fs.String("fn", "", "comma-separated harness function names")
	cfgJSON := fs.String("config", "", "JSON config (inline)")
	out := fs.String("out", "", "write summaries to this file")
	trace := fs.Bool("trace", false, "trace calls")
	tags := fs.String("tags", "", "extra build tags")
	fs.Parse(args)
	ld, err := loadPackage(*pkg, strings.Split(*files, ","), *tags)
	if err != nil {
		fmt.Fprintln(os.Stderr, "load:", err)
		return 3
	}
	var sums []*interp.Summary
	rc := 0
	for _, fn := range strings.Split(*fns, ",") {
		cfg := &interp.Config{Harness: fn}
		if *cfgJSON != "" {
			if err := json.Unmarshal([]byte(*cfgJSON), cfg); err != nil {
				fmt.Fprintln(os.Stderr, "config:", err)
				return 3
			}
		}
		cfg.Harness = fn
		s, err := runHarness(ld, fn, cfg, *trace)
		if err != nil {
			fmt.Fprintln(os.Stderr, "run:", err)
			return 3
		}
		sums = append(sums, s)
		fmt.Printf("%-40s %-12s paths=%d queries=%d (unknown %d) solver=%.1fs wall=%.1fs outcomes=%v\n", fn, s.Verdict, s.Paths, s.Queries, s.Unknown, s.SolverTimeS, s.WallS, s.Outcomes)
		for k, n := range s.Problems {
			fmt.Printf("    problem x%d: %s\n", n, k)
		}
		if os.Getenv("GOSX_FORKS") != "" {
			type kv struct {
				k string
				n int
			}
			var l []kv
			for k, n := range s.ForkSites {
				l = append(l, kv{k, n})
			}
			sort.Slice(l, func(a, b int) bool { return l[a].n > l[b].n })
			for j, e := range l {
				if j < 25 {
					fmt.Printf("    fork x%d: %s\n", e.n, e.k)
				}
			}
		}
		for _, v := range s.Violations {
			fmt.Printf("    VIOLATION %s %s: %s tape=%v\n", v.Kind, v.Assert, v.Msg, v.Tape)
		}
		if s.Verdict != "holds" {
			rc = 1
		}
	}
	if *out != "" {
		b, _ := json.MarshalIndent(sums, "", " ")
		os.WriteFile(*out, b, 0o644)
	}
	return rc
}

func runHarness(ld *loaded, fn string, cfg *interp.Config, trace bool) (*interp.Summary, error) {
	f := ld.spkg.Func(fn)
	if f == nil {
		return nil, fmt.Errorf("harness function %s not found in %s", fn, ld.spkg.Pkg.Path())
	}
	sizes := types.SizesFor("gc", "amd64")
	ex := interp.NewExplorer(ld.prog, f, cfg, sizes)
	ex.Trace = trace
	t0 := time.Now()
	if err := ex.Run(); err != nil {
		return nil, err
	}
	return ex.Summary(time.Since(t0)), nil
}
