package main

import (
	"bytes"
	"encoding/json"
	"flag"
	"fmt"
	"os"
	"os/exec"
	"path/filepath"
	"sort"
	"strconv"
	"strings"
	"time"

	"verif/gosx/interp"
)

// checkSpec is /verif/checks/<id>.json
type checkSpec struct {
	Property string       `json:"property"`
	Groups   []checkGroup `json:"groups"`
	Outside  []string     `json:"outside_claim"`
	Assume   []string     `json:"assumptions"`
}

type checkGroup struct {
	Pkg       string        `json:"pkg"`
	Files     []string      `json:"files"`
	Tags      string        `json:"tags"`
	Harnesses []harnessSpec `json:"harnesses"`
}

type harnessSpec struct {
	Fn           string          `json:"fn"`
	Tier         string          `json:"tier"` // "quick" (run in both tiers) or "thorough"
	Config       json.RawMessage `json:"config"`
	Thorough     json.RawMessage `json:"thorough_config"` // overrides for the thorough tier
	NativeReplay *bool           `json:"native_replay"`
	// NativeRetries > 1: the native run is not deterministic (Go map iteration order); a counterexample is
	// confirmed when one of the runs fails the assertion, a witness is validated when one run passes
	NativeRetries int `json:"native_retries"`
	// ScheduleDependent: counterexamples of this harness depend on a goroutine interleaving that a native
	// run cannot be forced into; when the native runs do not reproduce one, it is reported as confirmed by
	// the interpreter (which executed the real SSA along the recorded schedule), and the line says so
	ScheduleDependent bool `json:"schedule_dependent"`
	What         string          `json:"what"`
}

type knownFinding struct {
	Status   string `json:"status"` // known | fixed
	Property string `json:"property"`
	Shape    string `json:"shape"`
	Commit   string `json:"commit,omitempty"`
	What     string `json:"what"`
}

func loadKnown() []knownFinding {
	var ks []knownFinding
	b, err := os.ReadFile(filepath.Join(verifDir(), "known_findings.json"))
	if err != nil {
		return nil
	}
	json.Unmarshal(b, &ks)
	return ks
}

func cmdCheck(args []string) int {
	fs := flag.NewFlagSet("check", flag.ExitOnError)
	tier := fs.String("tier", "", "quick|thorough")
	replay := fs.String("replay", "", "replay a violation file")
	only := fs.String("only", "", "run only this harness")
	fs.Parse(args)
	if fs.NArg() < 1 {
		fmt.Fprintln(os.Stderr, "usage: gosx check [-tier quick|thorough] <id>")
		return 2
	}
	id := fs.Arg(0)
	if *tier == "" {
		*tier = os.Getenv("VERIF_TIER")
	}
	if *tier == "" {
		*tier = "quick"
	}
	seed, _ := strconv.Atoi(os.Getenv("VERIF_SEED"))
	b, err := os.ReadFile(filepath.Join(verifDir(), "checks", id+".json"))
	if err != nil {
		fmt.Fprintln(os.Stderr, err)
		return 2
	}
	var spec checkSpec
	if err := json.Unmarshal(b, &spec); err != nil {
		fmt.Fprintln(os.Stderr, "spec:", err)
		return 2
	}
	if *replay != "" {
		return replayViolation(&spec, *replay)
	}
	t0 := time.Now()
	known := map[string]knownFinding{}
	for _, k := range loadKnown() {
		if k.Property == id && k.Status == "known" {
			known[k.Shape] = k
		}
	}
	interp.KnownShapes = map[string]bool{}
	for s := range known {
		interp.KnownShapes[s] = true
	}

	var sums []*interp.Summary
	engineErr := false
	var newViol []violRec
	knownSeen := map[string]bool{}
	validated := 0
	replayDir := filepath.Join(outDir("replays"), id)
	os.RemoveAll(replayDir)
	for _, g := range spec.Groups {
		var files []string
		for _, f := range g.Files {
			files = append(files, filepath.Join(verifDir(), f))
		}
		var todo []harnessSpec
		for _, h := range g.Harnesses {
			if *only != "" && h.Fn != *only {
				continue
			}
			if h.Tier == "thorough" && *tier != "thorough" {
				continue
			}
			todo = append(todo, h)
		}
		if len(todo) == 0 {
			continue
		}
		ld, err := loadPackage(g.Pkg, files, g.Tags)
		if err != nil {
			fmt.Fprintln(os.Stderr, "load:", err)
			return 3
		}
		for _, h := range todo {
			cfg := &interp.Config{}
			if len(h.Config) > 0 {
				if err := json.Unmarshal(h.Config, cfg); err != nil {
					fmt.Fprintln(os.Stderr, "config:", err)
					return 3
				}
			}
			if *tier == "thorough" && len(h.Thorough) > 0 {
				if err := json.Unmarshal(h.Thorough, cfg); err != nil {
					fmt.Fprintln(os.Stderr, "config:", err)
					return 3
				}
			}
			cfg.Harness = h.Fn
			s, err := runHarness(ld, h.Fn, cfg, false)
			if err != nil {
				fmt.Fprintln(os.Stderr, "run:", err)
				return 3
			}
			sums = append(sums, s)
			fmt.Printf("[%s] %-44s %-12s paths=%d queries=%d unknown=%d redecided=%d/%d solver=%.1fs wall=%.1fs %v\n", id, h.Fn, s.Verdict, s.Paths, s.Queries, s.Unknown, s.FallbackOK, s.Fallbacks, s.SolverTimeS, s.WallS, s.Outcomes)
			for k, n := range s.Problems {
				fmt.Printf("    problem x%d: %s\n", n, k)
			}
			for _, e := range s.SolverErrs {
				fmt.Printf("    solver error: %s\n", e)
			}
			native := h.NativeReplay == nil || *h.NativeReplay
			if s.InitFaults > 0 {
				// a worker's package initialisation died inside the interpreter: its paths are unreliable
				fmt.Printf("    ENGINE: %d package init fault(s) in %s - counterexamples of this run are not reported\n", s.InitFaults, h.Fn)
				s.Violations = nil
				engineErr = true
			}
			// confirm violations
			seenKey := map[string]bool{}
			tries := map[string]int{}
			for _, v := range s.Violations {
				key := v.Assert + "|" + v.Known
				if seenKey[key] || tries[key] >= 3 {
					continue
				}
				tries[key]++
				confirmed, how := true, "interpreter (native replay not applicable for this harness)"
				if native {
					for try := 0; try < max(1, h.NativeRetries); try++ {
						if confirmed, how = nativeReplay(&g, h.Fn, v); confirmed {
							break
						}
					}
				}
				if !confirmed && h.ScheduleDependent && scheduleInTape(v) {
					confirmed = true
					how = "interpreter only: the real SSA was executed along the recorded goroutine schedule (decision prefix in the replay file); native runs with real goroutines did not hit this interleaving"
				}
				if !confirmed {
					fmt.Printf("    unconfirmed counterexample for %s: %s\n", v.Assert, how)
					continue
				}
				seenKey[key] = true
				if v.Known != "" {
					if !knownSeen[v.Known] {
						knownSeen[v.Known] = true
						fmt.Printf("KNOWN-FINDING: property=%s %s (%s; assertion %s in %s)\n", id, known[v.Known].What, v.Known, v.Assert, h.Fn)
					}
					continue
				}
				os.MkdirAll(replayDir, 0o755)
				p := filepath.Join(replayDir, fmt.Sprintf("%s-%d.json", h.Fn, len(newViol)))
				vb, _ := json.MarshalIndent(map[string]any{"property": id, "group_pkg": g.Pkg, "harness": h.Fn, "violation": v, "confirmed_by": how}, "", " ")
				os.WriteFile(p, vb, 0o644)
				newViol = append(newViol, violRec{v, p, how})
			}
			if len(s.Violations) > 0 && len(seenKey) == 0 {
				// every counterexample failed to reproduce: the encoding or a stub is wrong
				engineErr = true
				fmt.Printf("    ENGINE: counterexamples of %s did not reproduce natively\n", h.Fn)
			}
			if s.Verdict == "inconclusive" || s.Verdict == "vacuous" {
				engineErr = true
			}
			// translator validation: witness tapes of passing paths must pass natively too
			if native && len(s.Witnesses) > 0 && os.Getenv("GOSX_NO_WITNESS") == "" {
				nw := len(s.Witnesses)
				max := 8
				if *tier == "thorough" {
					max = 48
				}
				if nw > max {
					nw = max
				}
				ok, bad := nativeWitnesses(&g, h.Fn, s.Witnesses[:nw])
				if h.NativeRetries > 1 {
					// every witness must pass in at least one of the runs
					okAll, badAll := retryWitnesses(&g, h.Fn, s.Witnesses[:nw], h.NativeRetries)
					ok, bad = okAll, badAll
				}
				validated += ok
				if bad != "" {
					engineErr = true
					fmt.Printf("    ENGINE: witness replay mismatch in %s: %s\n", h.Fn, bad)
				}
			}
		}
	}
	wall := time.Since(t0)
	writeEvidence(id, *tier, seed, &spec, sums, newViol, knownSeen, validated, wall)
	if len(newViol) > 0 {
		for _, v := range newViol {
			fmt.Printf("VIOLATION property=%s replay=%s\n", id, v.path)
			fmt.Printf("    %s %s in %s: %s [confirmed by %s]\n", v.v.Kind, v.v.Assert, v.v.Harness, v.v.Msg, v.how)
		}
		return 1
	}
	if engineErr {
		fmt.Printf("INCONCLUSIVE property=%s (see problems above; nothing is claimed)\n", id)
		return 3
	}
	fmt.Printf("OK property=%s tier=%s harnesses=%d wall=%.1fs\n", id, *tier, len(sums), wall.Seconds())
	return 0
}

func scheduleInTape(v interp.Violation) bool {
	for _, e := range v.Tape {
		if e.Name == "schedule" {
			return true
		}
	}
	return false
}

type violRec struct {
	v    interp.Violation
	path string
	how  string
}

// ---- native replay ----

func workDir(sub string) string {
	d := filepath.Join(verifDir(), ".work", sub)
	os.MkdirAll(d, 0o755)
	return d
}

const replayTestSrc = `//go:build verif

package %s

import (
	"fmt"
	"os"
	"path/filepath"
	"sort"
	"testing"

	v "github.com/VKCOM/statshouse/internal/zzverif"
)

func TestVerifReplay(t *testing.T) {
	dir := os.Getenv("VERIF_TAPES")
	files, _ := filepath.Glob(filepath.Join(dir, "*.tape.json"))
	sort.Strings(files)
	for _, f := range files {
		os.Setenv("VERIF_TAPE", f)
		func() {
			defer func() {
				if r := recover(); r != nil {
					if _, ok := r.(v.AssumeFailed); ok {
						if len(v.Failures) > 0 {
							// the tape ends at the recorded failure; inputs drawn after it are defaults and
							// may violate a later assumption - the failure itself did reproduce
							fmt.Printf("REPLAY %%s DONE failures=%%q reached=%%q\n", filepath.Base(f), v.Failures, v.Reached)
							return
						}
						fmt.Printf("REPLAY %%s ASSUME-FAILED\n", filepath.Base(f))
						return
					}
					fmt.Printf("REPLAY %%s PANIC %%v\n", filepath.Base(f), r)
				}
			}()
			v.Reset()
			%s()
			fmt.Printf("REPLAY %%s DONE failures=%%q reached=%%q\n", filepath.Base(f), v.Failures, v.Reached)
		}()
	}
}
`

func runNative(g *checkGroup, fn string, tapes [][]interp.TapeEntry) (string, error) {
	wd := workDir(fmt.Sprintf("replay-%s-%d", fn, os.Getpid()))
	defer os.RemoveAll(wd)
	for j, tp := range tapes {
		b, _ := json.Marshal(tp)
		os.WriteFile(filepath.Join(wd, fmt.Sprintf("%04d.tape.json", j)), b, 0o644)
	}
	pkgName, err := packageName(filepath.Join(repoDir, g.Pkg))
	if err != nil {
		return "", err
	}
	testFile := filepath.Join(wd, "replay_test.go")
	os.WriteFile(testFile, []byte(fmt.Sprintf(replayTestSrc, pkgName, fn)), 0o644)
	repl := map[string]string{
		filepath.Join(repoDir, "internal/zzverif/zzverif.go"):      filepath.Join(verifDir(), "harness/zzverif/zzverif.go"),
		filepath.Join(repoDir, g.Pkg, "zz_verif_replay_test.go"): testFile,
	}
	for _, f := range g.Files {
		repl[filepath.Join(repoDir, g.Pkg, "zz_verif_"+filepath.Base(f))] = filepath.Join(verifDir(), f)
	}
	if rp, rb, err := randOverlay(); err == nil {
		rf := filepath.Join(wd, "pgregory_rand.go")
		os.WriteFile(rf, rb, 0o644)
		repl[rp] = rf
	}
	ob, _ := json.Marshal(map[string]any{"Replace": repl})
	ov := filepath.Join(wd, "overlay.json")
	os.WriteFile(ov, ob, 0o644)
	tags := "verif"
	if g.Tags != "" {
		tags += "," + g.Tags
	}
	cmd := exec.Command("go", "test", "-mod=mod", "-tags", tags, "-vet=off", "-count=1", "-v", "-overlay", ov, "-run", "^TestVerifReplay$", "-timeout", "10m", "./"+g.Pkg+"/")
	cmd.Dir = repoDir
	cmd.Env = append(os.Environ(), "VERIF_TAPES="+wd, "GOFLAGS=-mod=mod", "GOPROXY=off")
	var out bytes.Buffer
	cmd.Stdout = &out
	cmd.Stderr = &out
	err = cmd.Run()
	return out.String(), err
}

func packageName(dir string) (string, error) {
	ents, err := os.ReadDir(dir)
	if err != nil {
		return "", err
	}
	for _, e := range ents {
		if strings.HasSuffix(e.Name(), ".go") && !strings.HasSuffix(e.Name(), "_test.go") {
			b, _ := os.ReadFile(filepath.Join(dir, e.Name()))
			for _, line := range strings.Split(string(b), "\n") {
				if strings.HasPrefix(line, "package ") {
					return strings.Fields(line)[1], nil
				}
			}
		}
	}
	return "", fmt.Errorf("no package name in %s", dir)
}

// nativeReplay runs the counterexample natively; confirmed when the same assertion fails
// (or, for panic violations, when the native run panics / dies).
func nativeReplay(g *checkGroup, fn string, v interp.Violation) (bool, string) {
	if v.Tape == nil {
		return false, "no model available"
	}
	out, err := runNative(g, fn, [][]interp.TapeEntry{v.Tape})
	line := ""
	for _, l := range strings.Split(out, "\n") {
		if strings.HasPrefix(l, "REPLAY ") {
			line = l
		}
	}
	switch v.Kind {
	case "assert":
		if strings.Contains(line, "DONE") && strings.Contains(line, strconv.Quote(v.Assert)) {
			return true, "native replay (go test, real build): " + line
		}
		return false, "native run did not fail the assertion: " + firstLines(line+"\n"+out, 6)
	case "panic":
		if strings.Contains(line, "PANIC") {
			return true, "native replay (go test, real build): " + line
		}
		if err != nil && (strings.Contains(out, "fatal error") || strings.Contains(out, "panic:") || strings.Contains(out, "signal: killed")) {
			return true, "native replay (go test, real build) died: " + firstLines(out, 4)
		}
		return false, "native run did not panic: " + firstLines(line+"\n"+out, 6)
	}
	return false, "unknown violation kind"
}

func firstLines(s string, n int) string {
	ls := strings.Split(strings.TrimSpace(s), "\n")
	if len(ls) > n {
		ls = ls[:n]
	}
	return strings.Join(ls, " | ")
}

// nativeWitnesses: paths the engine explored to the end without a failing assertion must also
// run natively without failing assertions or panics.
func nativeWitnesses(g *checkGroup, fn string, tapes [][]interp.TapeEntry) (int, string) {
	out, err := runNative(g, fn, tapes)
	ok := 0
	for _, l := range strings.Split(out, "\n") {
		if !strings.HasPrefix(l, "REPLAY ") {
			continue
		}
		if strings.Contains(l, "DONE failures=[]") {
			ok++
		} else if strings.Contains(l, "ASSUME-FAILED") {
			return ok, "native run rejected an input the engine's path accepted: " + l
		} else {
			return ok, l
		}
	}
	if ok != len(tapes) {
		_ = err
		return ok, fmt.Sprintf("only %d of %d witness tapes completed natively: %s", ok, len(tapes), firstLines(out, 8))
	}
	return ok, ""
}

// retryWitnesses: native runs differ from each other (map iteration order); each witness tape
// must complete without failures in at least one of n runs.
func retryWitnesses(g *checkGroup, fn string, tapes [][]interp.TapeEntry, n int) (int, string) {
	passed := make([]bool, len(tapes))
	last := ""
	for try := 0; try < n; try++ {
		out, _ := runNative(g, fn, tapes)
		for _, l := range strings.Split(out, "\n") {
			if !strings.HasPrefix(l, "REPLAY ") {
				continue
			}
			var idx int
			if _, err := fmt.Sscanf(l, "REPLAY %04d.tape.json", &idx); err != nil || idx >= len(tapes) {
				continue
			}
			if strings.Contains(l, "DONE failures=[]") {
				passed[idx] = true
			} else if !passed[idx] {
				last = l
			}
		}
		all := true
		for _, p := range passed {
			all = all && p
		}
		if all {
			return len(tapes), ""
		}
	}
	ok := 0
	for _, p := range passed {
		if p {
			ok++
		}
	}
	return ok, fmt.Sprintf("witness never passed natively in %d runs: %s", n, last)
}

func replayViolation(spec *checkSpec, path string) int {
	b, err := os.ReadFile(path)
	if err != nil {
		fmt.Fprintln(os.Stderr, err)
		return 2
	}
	var rec struct {
		GroupPkg  string           `json:"group_pkg"`
		Harness   string           `json:"harness"`
		Violation interp.Violation `json:"violation"`
	}
	if err := json.Unmarshal(b, &rec); err != nil {
		fmt.Fprintln(os.Stderr, err)
		return 2
	}
	for _, g := range spec.Groups {
		if g.Pkg != rec.GroupPkg {
			continue
		}
		out, _ := runNative(&g, rec.Harness, [][]interp.TapeEntry{rec.Violation.Tape})
		fmt.Println("inputs (tape):")
		tb, _ := json.Marshal(rec.Violation.Tape)
		fmt.Println(string(tb))
		fmt.Println("native run:")
		fmt.Println(out)
		if strings.Contains(out, strconv.Quote(rec.Violation.Assert)) || strings.Contains(out, "PANIC") || strings.Contains(out, "fatal error") {
			fmt.Printf("VIOLATION property=%s replay=%s\n", spec.Property, path)
			return 1
		}
		return 0
	}
	return 2
}

// ---- evidence ----

func writeEvidence(id, tier string, seed int, spec *checkSpec, sums []*interp.Summary, viol []violRec, knownSeen map[string]bool, validated int, wall time.Duration) {
	paths, decisions, queries, unsat, sat, unknown := 0, 0, 0, 0, 0, 0
	fallbacks, fallbackOK := 0, 0
	solverT := 0.0
	funcs := map[string]bool{}
	var perH []map[string]any
	var samples []any
	notes := map[string]int{}
	assertsOK := 0
	for _, s := range sums {
		paths += s.Paths
		decisions += s.Decisions
		queries += s.Queries
		unsat += s.Unsat
		sat += s.Sat
		unknown += s.Unknown
		fallbacks += s.Fallbacks
		fallbackOK += s.FallbackOK
		solverT += s.SolverTimeS
		for _, f := range s.Funcs {
			funcs[f] = true
		}
		for k, n := range s.Notes {
			notes[k] += n
		}
		for _, n := range s.AssertsOK {
			assertsOK += n
		}
		perH = append(perH, map[string]any{
			"harness": s.Harness, "verdict": s.Verdict, "paths": s.Paths, "outcomes": s.Outcomes,
			"queries": s.Queries, "unsat": s.Unsat, "sat": s.Sat, "unknown": s.Unknown,
			"fallback_queries": s.Fallbacks, "fallback_queries_decided": s.FallbackOK, "fallback_decided_by": s.FallbackBy, "fallback_time_s": s.FallbackS,
			"solver_time_s": s.SolverTimeS, "wall_s": s.WallS, "reach_witnesses": s.Reached,
			"assertions_proved_per_path": s.AssertsOK, "assertions_unknown": s.AssertsUnk,
			"problems": s.Problems, "bounds": s.Bounds, "max_decision_depth": s.MaxDecDepth,
			"violations": len(s.Violations),
		})
		for j, sm := range s.Samples {
			if j >= 2 {
				break
			}
			samples = append(samples, map[string]any{"harness": s.Harness, "outcome": sm.Outcome, "decisions": len(sm.Prefix), "reached": sm.Reached, "input_tape": sm.Tape})
		}
	}
	if len(samples) == 0 {
		samples = append(samples, map[string]any{"note": "no completed path produced a witness tape"})
	}
	var fl []string
	for f := range funcs {
		fl = append(fl, f)
	}
	sort.Strings(fl)
	var nl []string
	for k, n := range notes {
		nl = append(nl, fmt.Sprintf("%s (x%d)", k, n))
	}
	sort.Strings(nl)
	var kf []string
	for k := range knownSeen {
		kf = append(kf, k)
	}
	sort.Strings(kf)
	if decisions == 0 {
		decisions = 1
	}
	ev := map[string]any{
		"property_id": id, "tier": tier, "seed": seed, "level": "model_checking",
		"coverage": map[string]any{
			"states":                        paths,
			"transitions":                   decisions,
			"traces_validated_against_impl": validated,
			"samples":                       samples,
			"exhaustive":                    false,
			"rule":                          "states = execution paths of the real SSA explored symbolically (each path = one solver-decided class of inputs); transitions = solver-decided branch decisions; every assertion is discharged by an SMT query per path over all inputs of that class, within the bounds listed per harness",
			"functions_encoded":             fl,
			"harnesses":                     perH,
			"queries_discharged":            map[string]any{"total": queries, "unsat": unsat, "sat": sat, "unknown": unknown, "assertion_checks_proved": assertsOK,
				"redecided_by_fresh_solver": fallbackOK, "fresh_solver_attempts": fallbacks},
			"solver_time_s":                 solverT,
			"solver":                        "z3 5.1.0 (z3-new; one persistent `-in` process per worker, push/pop; system z3 4.8.12 if z3-new is missing); a query the incremental process answers unknown is re-decided from scratch by one-shot z3 5.1.0, z3 4.8.12 and cvc5 1.0 processes run concurrently (first definite answer; a sat model must be confirmed by the incremental process); queries that stay unknown are counted under unknown",
			"encoding_notes":                nl,
			"outside_claim":                 spec.Outside,
			"known_findings_reproduced":     kf,
		},
		"assumptions": spec.Assume,
		"wall_s":      wall.Seconds(),
		"violations":  len(viol),
	}
	os.MkdirAll(outDir("evidence"), 0o755)
	b, _ := json.MarshalIndent(ev, "", " ")
	os.WriteFile(filepath.Join(outDir("evidence"), id+".json"), b, 0o644)
}
