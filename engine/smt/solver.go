package smt

import (
	"path/filepath"
	"bufio"
	"fmt"
	"io"
	"math/big"
	"os"
	"os/exec"
	"strings"
	"sync/atomic"
	"time"
)

type Result int

const (
	Sat Result = iota
	Unsat
	Unknown
)

func (r Result) String() string { return [...]string{"sat", "unsat", "unknown"}[r] }

type Stats struct {
	Queries, SatN, UnsatN, UnknownN int
	SolverTime                      time.Duration
	Errors                          []string
	// queries the incremental solver answered unknown that were re-decided by fresh one-shot solvers
	FallbackN, FallbackOK int
	FallbackTime          time.Duration
	FallbackBy            map[string]int
}

// Solver drives one persistent `z3 -in` process.
type Solver struct {
	Ctx       *Ctx
	cmd       *exec.Cmd
	in        *bufio.Writer
	out       *bufio.Reader
	scopes    [][]*Term // terms (and decls) emitted in each open scope; scopes[0] = global
	ufs       []map[string]bool
	lines     [][]string // state-building commands (declare/define/assert) sent in each open scope
	Stats     Stats
	Log       io.Writer // optional transcript
	TimeoutMs int
	Dead      bool // the process stopped answering (crashed or killed by the watchdog)
	fbFailed  int  // fallbacks that stayed unknown (the fallback is switched off after 20)
	bin       string
	args      []string
}

func NewSolver(ctx *Ctx, timeoutMs int) (*Solver, error) {
	// z3 4.8.12 needs ~100x longer than 5.1.0 on the deep ite chains table look-ups produce;
	// prefer z3-new (5.1.0) and fall back to the system z3.
	s := &Solver{Ctx: ctx, TimeoutMs: timeoutMs, bin: "z3", args: []string{"-in", "-smt2"}}
	if p, err := exec.LookPath("z3-new"); err == nil {
		s.bin = p
	}
	if b := os.Getenv("GOSX_SOLVER"); b != "" {
		f := strings.Fields(b)
		s.bin, s.args = f[0], f[1:]
	}
	if err := s.start(); err != nil {
		return nil, err
	}
	return s, nil
}

func (s *Solver) start() error {
	s.cmd = exec.Command(s.bin, s.args...)
	w, err := s.cmd.StdinPipe()
	if err != nil {
		return err
	}
	r, err := s.cmd.StdoutPipe()
	if err != nil {
		return err
	}
	er, err := s.cmd.StderrPipe()
	if err != nil {
		return err
	}
	if err := s.cmd.Start(); err != nil {
		return err
	}
	go func(p *os.Process) {
		// z3 prints "ASSERTION VIOLATION" on an internal failure and then waits at a prompt:
		// kill it at once so that the pending query fails as "solver died" instead of hanging
		sc := bufio.NewScanner(er)
		for sc.Scan() {
			if strings.Contains(sc.Text(), "ASSERTION VIOLATION") {
				p.Kill()
			}
		}
	}(s.cmd.Process)
	s.in = bufio.NewWriterSize(w, 1<<16)
	s.out = bufio.NewReaderSize(r, 1<<16)
	s.scopes = [][]*Term{nil}
	s.ufs = []map[string]bool{{}}
	s.lines = [][]string{nil}
	s.send("(set-option :print-success false)")
	if strings.HasPrefix(filepath.Base(s.bin), "z3") {
		s.send(fmt.Sprintf("(set-option :timeout %d)", s.TimeoutMs))
	}
	s.send("(set-option :produce-models true)")
	return nil
}

func (s *Solver) Close() {
	if s.cmd != nil && s.cmd.Process != nil {
		s.in.WriteString("(exit)\n")
		s.in.Flush()
		s.cmd.Process.Kill()
		s.cmd.Wait()
	}
}

// Restart kills the solver and starts a clean one (all scopes dropped).
func (s *Solver) Restart() error {
	for _, sc := range s.scopes {
		for _, t := range sc {
			t.emitted = false
		}
	}
	s.Close()
	s.Dead = false
	return s.start()
}

func (s *Solver) send(line string) {
	if s.Log != nil {
		fmt.Fprintln(s.Log, line)
	}
	if strings.HasPrefix(line, "(de") || strings.HasPrefix(line, "(assert") {
		s.lines[len(s.lines)-1] = append(s.lines[len(s.lines)-1], line)
	}
	s.in.WriteString(line)
	s.in.WriteByte('\n')
}

func (s *Solver) Depth() int { return len(s.scopes) - 1 }

func (s *Solver) Push() {
	s.send("(push 1)")
	s.scopes = append(s.scopes, nil)
	s.ufs = append(s.ufs, map[string]bool{})
	s.lines = append(s.lines, nil)
}

func (s *Solver) Pop(n int) {
	if n <= 0 {
		return
	}
	for i := 0; i < n; i++ {
		top := s.scopes[len(s.scopes)-1]
		for _, t := range top {
			t.emitted = false
		}
		s.scopes = s.scopes[:len(s.scopes)-1]
		s.ufs = s.ufs[:len(s.ufs)-1]
		s.lines = s.lines[:len(s.lines)-1]
	}
	s.send(fmt.Sprintf("(pop %d)", n))
}

func (s *Solver) ufDeclared(name string) bool {
	for _, m := range s.ufs {
		if m[name] {
			return true
		}
	}
	return false
}

// emit makes sure t (and its subterms) are defined in the solver; returns reference text.
func (s *Solver) emit(t *Term) string {
	if l := t.leaf(); l != "" {
		if t.Op == "var" && !t.emitted {
			s.send(fmt.Sprintf("(declare-const %s %s)", t.Name, t.Sort))
			t.emitted = true
			s.scopes[len(s.scopes)-1] = append(s.scopes[len(s.scopes)-1], t)
		}
		return l
	}
	if t.emitted {
		return "t" + fmt.Sprint(t.ID)
	}
	// iterative post-order to avoid deep recursion
	type fr struct {
		t *Term
		i int
	}
	stack := []fr{{t, 0}}
	for len(stack) > 0 {
		top := &stack[len(stack)-1]
		if top.i < len(top.t.Args) {
			a := top.t.Args[top.i]
			top.i++
			if a.leaf() != "" {
				if a.Op == "var" && !a.emitted {
					s.emit(a)
				}
				continue
			}
			if !a.emitted {
				stack = append(stack, fr{a, 0})
			}
			continue
		}
		n := top.t
		stack = stack[:len(stack)-1]
		if n.emitted {
			continue
		}
		var sb strings.Builder
		op := n.Op
		if strings.HasPrefix(op, "uf:") {
			op = op[3:]
			if !s.ufDeclared(op) {
				var as []string
				for _, a := range n.Args {
					as = append(as, a.Sort.String())
				}
				s.send(fmt.Sprintf("(declare-fun %s (%s) %s)", op, strings.Join(as, " "), n.Sort))
				s.ufs[len(s.ufs)-1][op] = true
			}
		}
		fmt.Fprintf(&sb, "(define-fun t%d () %s (%s", n.ID, n.Sort, op)
		for _, a := range n.Args {
			sb.WriteByte(' ')
			sb.WriteString(a.ref())
		}
		sb.WriteString("))")
		s.send(sb.String())
		n.emitted = true
		s.scopes[len(s.scopes)-1] = append(s.scopes[len(s.scopes)-1], n)
	}
	return t.ref()
}

func (s *Solver) Assert(t *Term) {
	if t.IsTrue() {
		return
	}
	r := s.emit(t)
	s.send("(assert " + r + ")")
}

func (s *Solver) readLine() (string, error) {
	line, err := s.out.ReadString('\n')
	return strings.TrimSpace(line), err
}

// Check runs check-sat under the extra assumptions (each a Bool term).
func (s *Solver) Check(assumps ...*Term) Result {
	var refs []string
	for _, a := range assumps {
		if a.IsTrue() {
			continue
		}
		if a.IsFalse() {
			return Unsat
		}
		// assumptions must be literals: name them
		r := s.emit(a)
		if a.Op == "not" && a.Args[0].leaf() == "" {
			r = "(not " + a.Args[0].ref() + ")"
			// t<ID> of the not-term is defined too; either works. Keep literal form.
		}
		refs = append(refs, r)
	}
	t0 := time.Now()
	if len(refs) == 0 {
		s.send("(check-sat)")
	} else {
		s.send("(check-sat-assuming (" + strings.Join(refs, " ") + "))")
	}
	s.in.Flush()
	res := Unknown
	// watchdog: a solver that neither answers nor honours its own timeout (z3 5.1.0 can stop at an
	// internal "ASSERTION VIOLATION" prompt) is killed; the query then counts as "solver died"
	proc := s.cmd.Process
	wd := time.AfterFunc(time.Duration(s.TimeoutMs)*time.Millisecond+30*time.Second, func() { proc.Kill() })
	defer wd.Stop()
	for {
		line, err := s.readLine()
		if err != nil {
			s.Stats.Errors = append(s.Stats.Errors, "solver died: "+err.Error())
			s.Dead = true
			break
		}
		if line == "" {
			continue
		}
		if line == "sat" {
			res = Sat
			break
		}
		if line == "unsat" {
			res = Unsat
			break
		}
		if line == "unknown" || line == "timeout" {
			res = Unknown
			break
		}
		if strings.HasPrefix(line, "(error") {
			s.Stats.Errors = append(s.Stats.Errors, line)
			continue
		}
		s.Stats.Errors = append(s.Stats.Errors, "unexpected: "+line)
	}
	s.Stats.Queries++
	s.Stats.SolverTime += time.Since(t0)
	if d := time.Since(t0); d > 2*time.Second && os.Getenv("GOSX_SLOWQ") != "" {
		txt := ""
		for _, a := range assumps {
			txt += " " + a.String()
		}
		if len(txt) > 1500 {
			txt = txt[:1500]
		}
		fmt.Fprintf(os.Stderr, "SLOWQ %.1fs %v:%s\n", d.Seconds(), res, txt)
	}
	if res == Unknown && !s.Dead {
		if d := os.Getenv("GOSX_DUMPUNK"); d != "" {
			os.WriteFile(filepath.Join(d, fmt.Sprintf("unk-%d-%d.smt2", os.Getpid(), time.Now().UnixNano())), []byte(s.script(refs, nil)), 0o644)
		}
		if os.Getenv("GOSX_NO_FALLBACK") == "" && s.fbFailed < 20 {
			res = s.fallback(refs)
		}
	} else if forceFallbackEvery > 0 && !s.Dead && s.Stats.Queries%forceFallbackEvery == 0 {
		// self-test (GOSX_FORCE_FALLBACK=k): every k-th definite answer is re-decided by the fresh
		// solvers as well; a different definite answer is a solver disagreement and spoils the run
		if r2 := s.fallback(refs); r2 != Unknown && r2 != res {
			s.Stats.Errors = append(s.Stats.Errors, fmt.Sprintf("solver disagreement: incremental %v, fresh %v", res, r2))
		} else if r2 == Sat {
			// keep the model of the pinned re-check: it is the one GetValues will read
		}
	}
	switch res {
	case Sat:
		s.Stats.SatN++
	case Unsat:
		s.Stats.UnsatN++
	default:
		s.Stats.UnknownN++
	}
	return res
}

// script is the solver's current state plus the assumptions as a standalone SMT-LIB2 problem;
// with consts it also asks for their model values.
func (s *Solver) script(refs []string, consts []string) string {
	var sb strings.Builder
	for _, sc := range s.lines {
		for _, l := range sc {
			sb.WriteString(l)
			sb.WriteByte('\n')
		}
	}
	for _, r := range refs {
		sb.WriteString("(assert " + r + ")\n")
	}
	sb.WriteString("(check-sat)\n")
	if len(consts) > 0 {
		sb.WriteString("(get-value (" + strings.Join(consts, " ") + "))\n")
	}
	return sb.String()
}

// scalarConsts lists the declared constants of sort Int, Bool or BitVec in the open scopes.
func (s *Solver) scalarConsts() []string {
	var out []string
	for _, sc := range s.lines {
		for _, l := range sc {
			if !strings.HasPrefix(l, "(declare-const ") {
				continue
			}
			f := strings.SplitN(strings.TrimSuffix(l[len("(declare-const "):], ")"), " ", 2)
			if len(f) == 2 && (f[1] == "Int" || f[1] == "Bool" || strings.HasPrefix(f[1], "(_ BitVec ")) {
				out = append(out, f[0])
			}
		}
	}
	return out
}

type fbAnswer struct {
	solver string
	res    Result
	model  string // raw get-value answer after sat
}

// runOnce decides script in a fresh solver process (no incremental state).
func runOnce(name string, argv []string, script string, limit time.Duration, stop <-chan struct{}) fbAnswer {
	ans := fbAnswer{solver: name, res: Unknown}
	cmd := exec.Command(argv[0], argv[1:]...)
	cmd.Stdin = strings.NewReader(script)
	var out strings.Builder
	cmd.Stdout = &out
	if err := cmd.Start(); err != nil {
		return ans
	}
	done := make(chan struct{})
	go func() { cmd.Wait(); close(done) }()
	select {
	case <-done:
	case <-stop:
		cmd.Process.Kill()
		<-done
		return ans
	case <-time.After(limit + 5*time.Second):
		cmd.Process.Kill()
		<-done
		return ans
	}
	txt := out.String()
	if strings.Contains(txt, "(error") && !strings.HasPrefix(strings.TrimSpace(txt), "unsat") {
		// an error before or instead of the verdict: the solver did not take the whole problem.
		// (after "unsat" the only possible error is the get-value that has no model to print)
		return ans
	}
	first, rest, _ := strings.Cut(strings.TrimSpace(txt), "\n")
	switch strings.TrimSpace(first) {
	case "sat":
		ans.res, ans.model = Sat, rest
	case "unsat":
		ans.res = Unsat
	}
	return ans
}

func sexpText(e *sexp) string {
	if e.list == nil && e.atom != "" {
		return e.atom
	}
	var parts []string
	for _, c := range e.list {
		parts = append(parts, sexpText(c))
	}
	return "(" + strings.Join(parts, " ") + ")"
}

var pinSeq atomic.Int64

var forceFallbackEvery = func() int {
	n := 0
	fmt.Sscan(os.Getenv("GOSX_FORCE_FALLBACK"), &n)
	return n
}()

// fallback re-decides a query the incremental solver gave up on: the same problem (every command of
// the open scopes plus the assumptions) goes to fresh one-shot processes of z3 5.1.0, z3 4.8.12 and
// cvc5, which run concurrently without the learned state of the long-lived process; the first definite
// answer wins. unsat is returned as is. For sat the model of the scalar constants is pinned as one more
// assumption on the incremental solver, whose own sat answer (and model, for GetValues) is returned;
// if it does not confirm, the query stays unknown.
func (s *Solver) fallback(refs []string) Result {
	t0 := time.Now()
	s.Stats.FallbackN++
	limit := time.Duration(3*s.TimeoutMs) * time.Millisecond
	if limit < 60*time.Second {
		limit = 60 * time.Second
	}
	ms := limit.Milliseconds()
	consts := s.scalarConsts()
	body := s.script(refs, consts)
	type eng struct {
		name   string
		argv   []string
		header string
	}
	var engines []eng
	zhdr := fmt.Sprintf("(set-option :timeout %d)\n(set-option :produce-models true)\n", ms)
	for _, b := range []string{"z3-new", "z3"} {
		if p, err := exec.LookPath(b); err == nil {
			engines = append(engines, eng{b, []string{p, "-in", "-smt2"}, zhdr})
		}
	}
	if p, err := exec.LookPath("cvc5"); err == nil {
		engines = append(engines, eng{"cvc5", []string{p, "--lang=smt2", "--produce-models", fmt.Sprintf("--tlimit=%d", ms)}, "(set-logic ALL)\n"})
	}
	stop := make(chan struct{})
	ch := make(chan fbAnswer, len(engines))
	for _, e := range engines {
		go func(e eng) { ch <- runOnce(e.name, e.argv, e.header+body, limit, stop) }(e)
	}
	best := fbAnswer{res: Unknown}
	for range engines {
		a := <-ch
		if a.res != Unknown {
			best = a
			break
		}
	}
	close(stop)
	res := best.res
	if res == Sat {
		res = s.pinModel(refs, consts, best.model)
	}
	s.Stats.FallbackTime += time.Since(t0)
	if res == Unknown {
		s.fbFailed++
	} else {
		s.Stats.FallbackOK++
		if s.Stats.FallbackBy == nil {
			s.Stats.FallbackBy = map[string]int{}
		}
		s.Stats.FallbackBy[best.solver+":"+res.String()]++
	}
	return res
}

// pinModel asks the incremental solver for sat under refs plus the fallback's model of the scalar constants.
func (s *Solver) pinModel(refs, consts []string, model string) Result {
	toks := tokenize(model)
	pos := 0
	ex, err := parseSexp(toks, &pos)
	if err != nil || len(ex.list) != len(consts) {
		return Unknown
	}
	var eqs []string
	for k, pair := range ex.list {
		if len(pair.list) != 2 || sexpText(pair.list[0]) != consts[k] {
			return Unknown
		}
		eqs = append(eqs, "(= "+consts[k]+" "+sexpText(pair.list[1])+")")
	}
	if len(eqs) == 0 {
		return Unknown
	}
	pin := fmt.Sprintf("gosx_pin_%d_%d", os.Getpid(), pinSeq.Add(1))
	s.send(fmt.Sprintf("(define-fun %s () Bool (and true %s))", pin, strings.Join(eqs, " ")))
	s.send("(check-sat-assuming (" + strings.Join(append(append([]string{}, refs...), pin), " ") + "))")
	s.in.Flush()
	proc := s.cmd.Process
	wd := time.AfterFunc(time.Duration(s.TimeoutMs)*time.Millisecond+30*time.Second, func() { proc.Kill() })
	defer wd.Stop()
	for {
		line, err := s.readLine()
		if err != nil {
			s.Stats.Errors = append(s.Stats.Errors, "solver died: "+err.Error())
			s.Dead = true
			return Unknown
		}
		switch {
		case line == "":
		case line == "sat":
			return Sat
		case line == "unsat":
			// the two solvers disagree on a ground model: trust neither
			s.Stats.Errors = append(s.Stats.Errors, "fallback model rejected by the incremental solver")
			return Unknown
		case line == "unknown" || line == "timeout":
			return Unknown
		case strings.HasPrefix(line, "(error"):
			s.Stats.Errors = append(s.Stats.Errors, line)
		default:
			s.Stats.Errors = append(s.Stats.Errors, "unexpected: "+line)
		}
	}
}

// Value is a model value.
type Value struct {
	Bool bool
	U    uint64
	Big  *big.Int
}

// GetValues returns model values for the given variable/leaf terms after a Sat answer
// obtained under the same assumptions (z3 keeps the last model).
func (s *Solver) GetValues(ts []*Term) ([]Value, error) {
	if len(ts) == 0 {
		return nil, nil
	}
	var refs []string
	for _, t := range ts {
		refs = append(refs, s.emit(t))
	}
	s.send("(get-value (" + strings.Join(refs, " ") + "))")
	s.in.Flush()
	// read balanced s-expression
	var sb strings.Builder
	depth := 0
	started := false
	for {
		line, err := s.out.ReadString('\n')
		if err != nil {
			return nil, err
		}
		if strings.HasPrefix(strings.TrimSpace(line), "(error") {
			return nil, fmt.Errorf("get-value: %s", strings.TrimSpace(line))
		}
		for _, ch := range line {
			if ch == '(' {
				depth++
				started = true
			} else if ch == ')' {
				depth--
			}
		}
		sb.WriteString(line)
		if started && depth <= 0 {
			break
		}
	}
	toks := tokenize(sb.String())
	pos := 0
	ex, err := parseSexp(toks, &pos)
	if err != nil {
		return nil, err
	}
	if len(ex.list) != len(ts) {
		return nil, fmt.Errorf("get-value: got %d values for %d terms", len(ex.list), len(ts))
	}
	out := make([]Value, len(ts))
	for i, pair := range ex.list {
		if len(pair.list) != 2 {
			return nil, fmt.Errorf("get-value: bad pair")
		}
		v, err := parseValue(pair.list[1], ts[i].Sort)
		if err != nil {
			return nil, err
		}
		out[i] = v
	}
	return out, nil
}

type sexp struct {
	atom string
	list []*sexp
}

func tokenize(s string) []string {
	var toks []string
	i := 0
	for i < len(s) {
		c := s[i]
		switch {
		case c == '(' || c == ')':
			toks = append(toks, string(c))
			i++
		case c == ' ' || c == '\n' || c == '\t' || c == '\r':
			i++
		case c == '|':
			j := strings.IndexByte(s[i+1:], '|')
			toks = append(toks, s[i:i+j+2])
			i += j + 2
		default:
			j := i
			for j < len(s) && !strings.ContainsRune("() \n\t\r", rune(s[j])) {
				j++
			}
			toks = append(toks, s[i:j])
			i = j
		}
	}
	return toks
}

func parseSexp(toks []string, pos *int) (*sexp, error) {
	if *pos >= len(toks) {
		return nil, fmt.Errorf("sexp: eof")
	}
	t := toks[*pos]
	*pos++
	if t == "(" {
		n := &sexp{}
		for *pos < len(toks) && toks[*pos] != ")" {
			c, err := parseSexp(toks, pos)
			if err != nil {
				return nil, err
			}
			n.list = append(n.list, c)
		}
		*pos++
		return n, nil
	}
	return &sexp{atom: t}, nil
}

func parseValue(e *sexp, s Sort) (Value, error) {
	switch s.K {
	case KBool:
		return Value{Bool: e.atom == "true"}, nil
	case KBV:
		a := e.atom
		if strings.HasPrefix(a, "#x") {
			b, ok := new(big.Int).SetString(a[2:], 16)
			if !ok {
				return Value{}, fmt.Errorf("bad bv %s", a)
			}
			return Value{U: b.Uint64(), Big: b}, nil
		}
		if strings.HasPrefix(a, "#b") {
			b, ok := new(big.Int).SetString(a[2:], 2)
			if !ok {
				return Value{}, fmt.Errorf("bad bv %s", a)
			}
			return Value{U: b.Uint64(), Big: b}, nil
		}
		if len(e.list) == 3 && e.list[0].atom == "_" && strings.HasPrefix(e.list[1].atom, "bv") {
			b, ok := new(big.Int).SetString(e.list[1].atom[2:], 10)
			if !ok {
				return Value{}, fmt.Errorf("bad bv")
			}
			return Value{U: b.Uint64(), Big: b}, nil
		}
		return Value{}, fmt.Errorf("bad bv value %v", e)
	case KInt:
		if e.atom != "" {
			b, ok := new(big.Int).SetString(e.atom, 10)
			if !ok {
				return Value{}, fmt.Errorf("bad int %s", e.atom)
			}
			return Value{Big: b}, nil
		}
		if len(e.list) == 2 && e.list[0].atom == "-" {
			b, ok := new(big.Int).SetString(e.list[1].atom, 10)
			if !ok {
				return Value{}, fmt.Errorf("bad int")
			}
			return Value{Big: b.Neg(b)}, nil
		}
	}
	return Value{}, fmt.Errorf("cannot parse value of sort %v", s)
}
