package smt

import (
	"path/filepath"
	"bufio"
	"fmt"
	"io"
	"math/big"
	"os"
	"os/exec"
	"strings"
	"time"
)

type Result int

const (
	Sat Result = iota
	Unsat
	Unknown
)

func (r Result) String() string { return [...]string{"sat", "unsat", "unknown"}[r] }

type Stats struct {
	Queries, SatN, UnsatN, UnknownN int
	SolverTime                      time.Duration
	Errors                          []string
}

// Solver drives one persistent `z3 -in` process.
type Solver struct {
	Ctx       *Ctx
	cmd       *exec.Cmd
	in        *bufio.Writer
	out       *bufio.Reader
	scopes    [][]*Term // terms (and decls) emitted in each open scope; scopes[0] = global
	ufs       []map[string]bool
	Stats     Stats
	Log       io.Writer // optional transcript
	TimeoutMs int
	Dead      bool // the process stopped answering (crashed or killed by the watchdog)
	bin       string
	args      []string
}

func NewSolver(ctx *Ctx, timeoutMs int) (*Solver, error) {
	// z3 4.8.12 needs ~100x longer than 5.1.0 on the deep ite chains table look-ups produce;
	// prefer z3-new (5.1.0) and fall back to the system z3.
	s := &Solver{Ctx: ctx, TimeoutMs: timeoutMs, bin: "z3", args: []string{"-in", "-smt2"}}
	if p, err := exec.LookPath("z3-new"); err == nil {
		s.bin = p
	}
	if b := os.Getenv("GOSX_SOLVER"); b != "" {
		f := strings.Fields(b)
		s.bin, s.args = f[0], f[1:]
	}
	if err := s.start(); err != nil {
		return nil, err
	}
	return s, nil
}

func (s *Solver) start() error {
	s.cmd = exec.Command(s.bin, s.args...)
	w, err := s.cmd.StdinPipe()
	if err != nil {
		return err
	}
	r, err := s.cmd.StdoutPipe()
	if err != nil {
		return err
	}
	er, err := s.cmd.StderrPipe()
	if err != nil {
		return err
	}
	if err := s.cmd.Start(); err != nil {
		return err
	}
	go func(p *os.Process) {
		// z3 prints "ASSERTION VIOLATION" on an internal failure and then waits at a prompt:
		// kill it at once so that the pending query fails as "solver died" instead of hanging
		sc := bufio.NewScanner(er)
		for sc.Scan() {
			if strings.Contains(sc.Text(), "ASSERTION VIOLATION") {
				p.Kill()
			}
		}
	}(s.cmd.Process)
	s.in = bufio.NewWriterSize(w, 1<<16)
	s.out = bufio.NewReaderSize(r, 1<<16)
	s.scopes = [][]*Term{nil}
	s.ufs = []map[string]bool{{}}
	s.send("(set-option :print-success false)")
	if strings.HasPrefix(filepath.Base(s.bin), "z3") {
		s.send(fmt.Sprintf("(set-option :timeout %d)", s.TimeoutMs))
	}
	s.send("(set-option :produce-models true)")
	return nil
}

func (s *Solver) Close() {
	if s.cmd != nil && s.cmd.Process != nil {
		s.in.WriteString("(exit)\n")
		s.in.Flush()
		s.cmd.Process.Kill()
		s.cmd.Wait()
	}
}

// Restart kills the solver and starts a clean one (all scopes dropped).
func (s *Solver) Restart() error {
	for _, sc := range s.scopes {
		for _, t := range sc {
			t.emitted = false
		}
	}
	s.Close()
	s.Dead = false
	return s.start()
}

func (s *Solver) send(line string) {
	if s.Log != nil {
		fmt.Fprintln(s.Log, line)
	}
	s.in.WriteString(line)
	s.in.WriteByte('\n')
}

func (s *Solver) Depth() int { return len(s.scopes) - 1 }

func (s *Solver) Push() {
	s.send("(push 1)")
	s.scopes = append(s.scopes, nil)
	s.ufs = append(s.ufs, map[string]bool{})
}

func (s *Solver) Pop(n int) {
	if n <= 0 {
		return
	}
	for i := 0; i < n; i++ {
		top := s.scopes[len(s.scopes)-1]
		for _, t := range top {
			t.emitted = false
		}
		s.scopes = s.scopes[:len(s.scopes)-1]
		s.ufs = s.ufs[:len(s.ufs)-1]
	}
	s.send(fmt.Sprintf("(pop %d)", n))
}

func (s *Solver) ufDeclared(name string) bool {
	for _, m := range s.ufs {
		if m[name] {
			return true
		}
	}
	return false
}

// emit makes sure t (and its subterms) are defined in the solver; returns reference text.
func (s *Solver) emit(t *Term) string {
	if l := t.leaf(); l != "" {
		if t.Op == "var" && !t.emitted {
			s.send(fmt.Sprintf("(declare-const %s %s)", t.Name, t.Sort))
			t.emitted = true
			s.scopes[len(s.scopes)-1] = append(s.scopes[len(s.scopes)-1], t)
		}
		return l
	}
	if t.emitted {
		return "t" + fmt.Sprint(t.ID)
	}
	// iterative post-order to avoid deep recursion
	type fr struct {
		t *Term
		i int
	}
	stack := []fr{{t, 0}}
	for len(stack) > 0 {
		top := &stack[len(stack)-1]
		if top.i < len(top.t.Args) {
			a := top.t.Args[top.i]
			top.i++
			if a.leaf() != "" {
				if a.Op == "var" && !a.emitted {
					s.emit(a)
				}
				continue
			}
			if !a.emitted {
				stack = append(stack, fr{a, 0})
			}
			continue
		}
		n := top.t
		stack = stack[:len(stack)-1]
		if n.emitted {
			continue
		}
		var sb strings.Builder
		op := n.Op
		if strings.HasPrefix(op, "uf:") {
			op = op[3:]
			if !s.ufDeclared(op) {
				var as []string
				for _, a := range n.Args {
					as = append(as, a.Sort.String())
				}
				s.send(fmt.Sprintf("(declare-fun %s (%s) %s)", op, strings.Join(as, " "), n.Sort))
				s.ufs[len(s.ufs)-1][op] = true
			}
		}
		fmt.Fprintf(&sb, "(define-fun t%d () %s (%s", n.ID, n.Sort, op)
		for _, a := range n.Args {
			sb.WriteByte(' ')
			sb.WriteString(a.ref())
		}
		sb.WriteString("))")
		s.send(sb.String())
		n.emitted = true
		s.scopes[len(s.scopes)-1] = append(s.scopes[len(s.scopes)-1], n)
	}
	return t.ref()
}

func (s *Solver) Assert(t *Term) {
	if t.IsTrue() {
		return
	}
	r := s.emit(t)
	s.send("(assert " + r + ")")
}

func (s *Solver) readLine() (string, error) {
	line, err := s.out.ReadString('\n')
	return strings.TrimSpace(line), err
}

// Check runs check-sat under the extra assumptions (each a Bool term).
func (s *Solver) Check(assumps ...*Term) Result {
	var refs []string
	for _, a := range assumps {
		if a.IsTrue() {
			continue
		}
		if a.IsFalse() {
			return Unsat
		}
		// assumptions must be literals: name them
		r := s.emit(a)
		if a.Op == "not" && a.Args[0].leaf() == "" {
			r = "(not " + a.Args[0].ref() + ")"
			// t<ID> of the not-term is defined too; either works. Keep literal form.
		}
		refs = append(refs, r)
	}
	t0 := time.Now()
	if len(refs) == 0 {
		s.send("(check-sat)")
	} else {
		s.send("(check-sat-assuming (" + strings.Join(refs, " ") + "))")
	}
	s.in.Flush()
	res := Unknown
	// watchdog: a solver that neither answers nor honours its own timeout (z3 5.1.0 can stop at an
	// internal "ASSERTION VIOLATION" prompt) is killed; the query then counts as "solver died"
	proc := s.cmd.Process
	wd := time.AfterFunc(time.Duration(s.TimeoutMs)*time.Millisecond+30*time.Second, func() { proc.Kill() })
	defer wd.Stop()
	for {
		line, err := s.readLine()
		if err != nil {
			s.Stats.Errors = append(s.Stats.Errors, "solver died: "+err.Error())
			s.Dead = true
			break
		}
		if line == "" {
			continue
		}
		if line == "sat" {
			res = Sat
			break
		}
		if line == "unsat" {
			res = Unsat
			break
		}
		if line == "unknown" || line == "timeout" {
			res = Unknown
			break
		}
		if strings.HasPrefix(line, "(error") {
			s.Stats.Errors = append(s.Stats.Errors, line)
			continue
		}
		s.Stats.Errors = append(s.Stats.Errors, "unexpected: "+line)
	}
	s.Stats.Queries++
	s.Stats.SolverTime += time.Since(t0)
	if d := time.Since(t0); d > 2*time.Second && os.Getenv("GOSX_SLOWQ") != "" {
		txt := ""
		for _, a := range assumps {
			txt += " " + a.String()
		}
		if len(txt) > 1500 {
			txt = txt[:1500]
		}
		fmt.Fprintf(os.Stderr, "SLOWQ %.1fs %v:%s\n", d.Seconds(), res, txt)
	}
	switch res {
	case Sat:
		s.Stats.SatN++
	case Unsat:
		s.Stats.UnsatN++
	default:
		s.Stats.UnknownN++
	}
	return res
}

// Value is a model value.
type Value struct {
	Bool bool
	U    uint64
	Big  *big.Int
}

// GetValues returns model values for the given variable/leaf terms after a Sat answer
// obtained under the same assumptions (z3 keeps the last model).
func (s *Solver) GetValues(ts []*Term) ([]Value, error) {
	if len(ts) == 0 {
		return nil, nil
	}
	var refs []string
	for _, t := range ts {
		refs = append(refs, s.emit(t))
	}
	s.send("(get-value (" + strings.Join(refs, " ") + "))")
	s.in.Flush()
	// read balanced s-expression
	var sb strings.Builder
	depth := 0
	started := false
	for {
		line, err := s.out.ReadString('\n')
		if err != nil {
			return nil, err
		}
		if strings.HasPrefix(strings.TrimSpace(line), "(error") {
			return nil, fmt.Errorf("get-value: %s", strings.TrimSpace(line))
		}
		for _, ch := range line {
			if ch == '(' {
				depth++
				started = true
			} else if ch == ')' {
				depth--
			}
		}
		sb.WriteString(line)
		if started && depth <= 0 {
			break
		}
	}
	toks := tokenize(sb.String())
	pos := 0
	ex, err := parseSexp(toks, &pos)
	if err != nil {
		return nil, err
	}
	if len(ex.list) != len(ts) {
		return nil, fmt.Errorf("get-value: got %d values for %d terms", len(ex.list), len(ts))
	}
	out := make([]Value, len(ts))
	for i, pair := range ex.list {
		if len(pair.list) != 2 {
			return nil, fmt.Errorf("get-value: bad pair")
		}
		v, err := parseValue(pair.list[1], ts[i].Sort)
		if err != nil {
			return nil, err
		}
		out[i] = v
	}
	return out, nil
}

type sexp struct {
	atom string
	list []*sexp
}

func tokenize(s string) []string {
	var toks []string
	i := 0
	for i < len(s) {
		c := s[i]
		switch {
		case c == '(' || c == ')':
			toks = append(toks, string(c))
			i++
		case c == ' ' || c == '\n' || c == '\t' || c == '\r':
			i++
		case c == '|':
			j := strings.IndexByte(s[i+1:], '|')
			toks = append(toks, s[i:i+j+2])
			i += j + 2
		default:
			j := i
			for j < len(s) && !strings.ContainsRune("() \n\t\r", rune(s[j])) {
				j++
			}
			toks = append(toks, s[i:j])
			i = j
		}
	}
	return toks
}

func parseSexp(toks []string, pos *int) (*sexp, error) {
	if *pos >= len(toks) {
		return nil, fmt.Errorf("sexp: eof")
	}
	t := toks[*pos]
	*pos++
	if t == "(" {
		n := &sexp{}
		for *pos < len(toks) && toks[*pos] != ")" {
			c, err := parseSexp(toks, pos)
			if err != nil {
				return nil, err
			}
			n.list = append(n.list, c)
		}
		*pos++
		return n, nil
	}
	return &sexp{atom: t}, nil
}

func parseValue(e *sexp, s Sort) (Value, error) {
	switch s.K {
	case KBool:
		return Value{Bool: e.atom == "true"}, nil
	case KBV:
		a := e.atom
		if strings.HasPrefix(a, "#x") {
			b, ok := new(big.Int).SetString(a[2:], 16)
			if !ok {
				return Value{}, fmt.Errorf("bad bv %s", a)
			}
			return Value{U: b.Uint64(), Big: b}, nil
		}
		if strings.HasPrefix(a, "#b") {
			b, ok := new(big.Int).SetString(a[2:], 2)
			if !ok {
				return Value{}, fmt.Errorf("bad bv %s", a)
			}
			return Value{U: b.Uint64(), Big: b}, nil
		}
		if len(e.list) == 3 && e.list[0].atom == "_" && strings.HasPrefix(e.list[1].atom, "bv") {
			b, ok := new(big.Int).SetString(e.list[1].atom[2:], 10)
			if !ok {
				return Value{}, fmt.Errorf("bad bv")
			}
			return Value{U: b.Uint64(), Big: b}, nil
		}
		return Value{}, fmt.Errorf("bad bv value %v", e)
	case KInt:
		if e.atom != "" {
			b, ok := new(big.Int).SetString(e.atom, 10)
			if !ok {
				return Value{}, fmt.Errorf("bad int %s", e.atom)
			}
			return Value{Big: b}, nil
		}
		if len(e.list) == 2 && e.list[0].atom == "-" {
			b, ok := new(big.Int).SetString(e.list[1].atom, 10)
			if !ok {
				return Value{}, fmt.Errorf("bad int")
			}
			return Value{Big: b.Neg(b)}, nil
		}
	}
	return Value{}, fmt.Errorf("cannot parse value of sort %v", s)
}
