// Package smt: hash-consed SMT-LIB2 terms with light constant folding.
package smt

import (
	"fmt"
	"math/big"
	"strconv"
	"strings"
)

type Kind uint8

const (
	KBool Kind = iota
	KBV
	KInt
	KFP
	KReal
	KRM
)

type Sort struct {
	K Kind
	W int // BV width; FP: 32 or 64
}

var (
	Bool = Sort{KBool, 0}
	Int  = Sort{KInt, 0}
	FP64 = Sort{KFP, 64}
	FP32 = Sort{KFP, 32}
)

func BV(w int) Sort { return Sort{KBV, w} }

func (s Sort) String() string {
	switch s.K {
	case KBool:
		return "Bool"
	case KBV:
		return fmt.Sprintf("(_ BitVec %d)", s.W)
	case KInt:
		return "Int"
	case KReal:
		return "Real"
	case KRM:
		return "RoundingMode"
	case KFP:
		if s.W == 32 {
			return "(_ FloatingPoint 8 24)"
		}
		return "(_ FloatingPoint 11 53)"
	}
	return "?"
}

// Term is an immutable hash-consed node.
type Term struct {
	ID   int
	Op   string // SMT operator text; "const", "var" are special
	Sort Sort
	Args []*Term
	U    uint64   // BV const (w<=64) / Bool const (0/1)
	Big  *big.Int // Int const, or wide BV const
	Name string   // var name

	emitted bool // owned by Solver
	size    int
}

func (t *Term) IsConst() bool { return t.Op == "const" }
func (t *Term) IsTrue() bool  { return t.Op == "const" && t.Sort.K == KBool && t.U == 1 }
func (t *Term) IsFalse() bool { return t.Op == "const" && t.Sort.K == KBool && t.U == 0 }

// Ctx owns the hash-cons table. Not safe for concurrent use (one per worker).
type Ctx struct {
	tab   map[string]*Term
	next  int
	T, F  *Term
	NVars int
}

func NewCtx() *Ctx {
	c := &Ctx{tab: map[string]*Term{}}
	c.T = c.mk(&Term{Op: "const", Sort: Bool, U: 1})
	c.F = c.mk(&Term{Op: "const", Sort: Bool, U: 0})
	return c
}

func (c *Ctx) Size() int { return len(c.tab) }

func (c *Ctx) mk(t *Term) *Term {
	var sb strings.Builder
	sb.WriteString(t.Op)
	sb.WriteByte('|')
	sb.WriteString(strconv.Itoa(int(t.Sort.K)))
	sb.WriteByte(':')
	sb.WriteString(strconv.Itoa(t.Sort.W))
	sb.WriteByte('|')
	for _, a := range t.Args {
		sb.WriteString(strconv.Itoa(a.ID))
		sb.WriteByte(',')
	}
	if t.Op == "const" {
		if t.Big != nil {
			sb.WriteString(t.Big.String())
		} else {
			sb.WriteString(strconv.FormatUint(t.U, 16))
		}
	}
	if t.Name != "" {
		sb.WriteByte('|')
		sb.WriteString(t.Name)
	}
	k := sb.String()
	if e, ok := c.tab[k]; ok {
		return e
	}
	t.ID = c.next
	c.next++
	t.size = 1
	for _, a := range t.Args {
		t.size += a.size
		if t.size > 1<<30 {
			t.size = 1 << 30
		}
	}
	c.tab[k] = t
	return t
}

func mask(w int) uint64 {
	if w >= 64 {
		return ^uint64(0)
	}
	return (uint64(1) << uint(w)) - 1
}

func (c *Ctx) BoolConst(b bool) *Term {
	if b {
		return c.T
	}
	return c.F
}

func (c *Ctx) BVConst(v uint64, w int) *Term {
	if w > 64 {
		panic("BVConst width")
	}
	return c.mk(&Term{Op: "const", Sort: BV(w), U: v & mask(w)})
}

func (c *Ctx) IntConst(v *big.Int) *Term {
	return c.mk(&Term{Op: "const", Sort: Int, Big: new(big.Int).Set(v)})
}
func (c *Ctx) IntConst64(v int64) *Term { return c.IntConst(big.NewInt(v)) }

func (c *Ctx) Var(name string, s Sort) *Term {
	return c.mk(&Term{Op: "var", Sort: s, Name: name})
}

// App builds a raw application (no folding).
func (c *Ctx) App(op string, s Sort, args ...*Term) *Term {
	return c.mk(&Term{Op: op, Sort: s, Args: args})
}

// ---------- Bool ----------

func (c *Ctx) Not(a *Term) *Term {
	if a.IsConst() {
		return c.BoolConst(a.U == 0)
	}
	if a.Op == "not" {
		return a.Args[0]
	}
	return c.App("not", Bool, a)
}

func (c *Ctx) And(a, b *Term) *Term {
	if a.IsFalse() || b.IsFalse() {
		return c.F
	}
	if a.IsTrue() {
		return b
	}
	if b.IsTrue() {
		return a
	}
	if a == b {
		return a
	}
	return c.App("and", Bool, a, b)
}

func (c *Ctx) Or(a, b *Term) *Term {
	if a.IsTrue() || b.IsTrue() {
		return c.T
	}
	if a.IsFalse() {
		return b
	}
	if b.IsFalse() {
		return a
	}
	if a == b {
		return a
	}
	return c.App("or", Bool, a, b)
}

func (c *Ctx) Xor(a, b *Term) *Term { return c.Not(c.Eq(a, b)) }

func (c *Ctx) Ite(cond, a, b *Term) *Term {
	if cond.IsTrue() {
		return a
	}
	if cond.IsFalse() {
		return b
	}
	if a == b {
		return a
	}
	if a.Sort != b.Sort {
		panic(fmt.Sprintf("ite sort mismatch %v %v", a.Sort, b.Sort))
	}
	if a.Sort.K == KBool {
		if a.IsTrue() && b.IsFalse() {
			return cond
		}
		if a.IsFalse() && b.IsTrue() {
			return c.Not(cond)
		}
	}
	return c.App("ite", a.Sort, cond, a, b)
}

func (c *Ctx) Eq(a, b *Term) *Term {
	if a == b {
		return c.T
	}
	if a.Sort != b.Sort {
		panic(fmt.Sprintf("eq sort mismatch %v %v (%s vs %s)", a.Sort, b.Sort, a.Op, b.Op))
	}
	if a.IsConst() && b.IsConst() {
		// distinct hash-consed constants are different values
		return c.F
	}
	if a.Sort.K == KBool {
		if a.IsConst() {
			a, b = b, a
		}
		if b.IsTrue() {
			return a
		}
		if b.IsFalse() {
			return c.Not(a)
		}
	}
	if a.ID > b.ID {
		a, b = b, a
	}
	return c.App("=", Bool, a, b)
}

// ---------- BV ----------

func sext(v uint64, w int) int64 {
	if w >= 64 {
		return int64(v)
	}
	sh := uint(64 - w)
	return int64(v<<sh) >> sh
}

func (c *Ctx) bvbin(op string, a, b *Term) *Term {
	if a.Sort != b.Sort || a.Sort.K != KBV {
		panic(fmt.Sprintf("%s sort mismatch %v %v", op, a.Sort, b.Sort))
	}
	w := a.Sort.W
	if a.IsConst() && b.IsConst() && w <= 64 {
		x, y := a.U, b.U
		var r uint64
		ok := true
		switch op {
		case "bvadd":
			r = x + y
		case "bvsub":
			r = x - y
		case "bvmul":
			r = x * y
		case "bvand":
			r = x & y
		case "bvor":
			r = x | y
		case "bvxor":
			r = x ^ y
		case "bvshl":
			if y >= uint64(w) {
				r = 0
			} else {
				r = x << y
			}
		case "bvlshr":
			if y >= uint64(w) {
				r = 0
			} else {
				r = x >> y
			}
		case "bvashr":
			sx := sext(x, w)
			if y >= uint64(w) {
				if sx < 0 {
					r = ^uint64(0)
				} else {
					r = 0
				}
			} else {
				r = uint64(sx >> y)
			}
		case "bvudiv":
			if y == 0 {
				r = mask(w)
			} else {
				r = x / y
			}
		case "bvurem":
			if y == 0 {
				r = x
			} else {
				r = x % y
			}
		case "bvsdiv":
			sx, sy := sext(x, w), sext(y, w)
			if sy == 0 {
				ok = false
			} else if sy == -1 {
				r = uint64(-sx)
			} else {
				r = uint64(sx / sy)
			}
		case "bvsrem":
			sx, sy := sext(x, w), sext(y, w)
			if sy == 0 {
				ok = false
			} else if sy == -1 {
				r = 0
			} else {
				r = uint64(sx % sy)
			}
		default:
			ok = false
		}
		if ok {
			return c.BVConst(r, w)
		}
	}
	// identities
	switch op {
	case "bvadd", "bvor", "bvxor":
		if a.IsConst() && a.U == 0 && a.Big == nil {
			return b
		}
		if b.IsConst() && b.U == 0 && b.Big == nil {
			return a
		}
	case "bvsub", "bvshl", "bvlshr", "bvashr":
		if b.IsConst() && b.U == 0 && b.Big == nil {
			return a
		}
	case "bvand":
		if w <= 64 {
			if a.IsConst() && a.U == 0 {
				return a
			}
			if b.IsConst() && b.U == 0 {
				return b
			}
			if a.IsConst() && a.U == mask(w) {
				return b
			}
			if b.IsConst() && b.U == mask(w) {
				return a
			}
		}
		if a == b {
			return a
		}
	case "bvmul":
		if w <= 64 {
			if a.IsConst() && a.U == 1 {
				return b
			}
			if b.IsConst() && b.U == 1 {
				return a
			}
			if (a.IsConst() && a.U == 0) || (b.IsConst() && b.U == 0) {
				return c.BVConst(0, w)
			}
		}
	}
	return c.App(op, a.Sort, a, b)
}

func (c *Ctx) BVAdd(a, b *Term) *Term  { return c.bvbin("bvadd", a, b) }
func (c *Ctx) BVSub(a, b *Term) *Term  { return c.bvbin("bvsub", a, b) }
func (c *Ctx) BVMul(a, b *Term) *Term  { return c.bvbin("bvmul", a, b) }
func (c *Ctx) BVAnd(a, b *Term) *Term  { return c.bvbin("bvand", a, b) }
func (c *Ctx) BVOr(a, b *Term) *Term   { return c.bvbin("bvor", a, b) }
func (c *Ctx) BVXor(a, b *Term) *Term  { return c.bvbin("bvxor", a, b) }
func (c *Ctx) BVShl(a, b *Term) *Term  { return c.bvbin("bvshl", a, b) }
func (c *Ctx) BVLshr(a, b *Term) *Term { return c.bvbin("bvlshr", a, b) }
func (c *Ctx) BVAshr(a, b *Term) *Term { return c.bvbin("bvashr", a, b) }
func (c *Ctx) BVUdiv(a, b *Term) *Term { return c.bvbin("bvudiv", a, b) }
func (c *Ctx) BVUrem(a, b *Term) *Term { return c.bvbin("bvurem", a, b) }
func (c *Ctx) BVSdiv(a, b *Term) *Term { return c.bvbin("bvsdiv", a, b) }
func (c *Ctx) BVSrem(a, b *Term) *Term { return c.bvbin("bvsrem", a, b) }

func (c *Ctx) BVNot(a *Term) *Term {
	if a.IsConst() && a.Sort.W <= 64 {
		return c.BVConst(^a.U, a.Sort.W)
	}
	return c.App("bvnot", a.Sort, a)
}
func (c *Ctx) BVNeg(a *Term) *Term {
	if a.IsConst() && a.Sort.W <= 64 {
		return c.BVConst(-a.U, a.Sort.W)
	}
	return c.App("bvneg", a.Sort, a)
}

func (c *Ctx) bvcmp(op string, a, b *Term) *Term {
	if a.Sort != b.Sort || a.Sort.K != KBV {
		panic(fmt.Sprintf("%s sort mismatch %v %v", op, a.Sort, b.Sort))
	}
	w := a.Sort.W
	if a.IsConst() && b.IsConst() && w <= 64 {
		var r bool
		switch op {
		case "bvult":
			r = a.U < b.U
		case "bvule":
			r = a.U <= b.U
		case "bvslt":
			r = sext(a.U, w) < sext(b.U, w)
		case "bvsle":
			r = sext(a.U, w) <= sext(b.U, w)
		}
		return c.BoolConst(r)
	}
	if a == b {
		return c.BoolConst(op == "bvule" || op == "bvsle")
	}
	return c.App(op, Bool, a, b)
}
func (c *Ctx) BVUlt(a, b *Term) *Term { return c.bvcmp("bvult", a, b) }
func (c *Ctx) BVUle(a, b *Term) *Term { return c.bvcmp("bvule", a, b) }
func (c *Ctx) BVSlt(a, b *Term) *Term { return c.bvcmp("bvslt", a, b) }
func (c *Ctx) BVSle(a, b *Term) *Term { return c.bvcmp("bvsle", a, b) }

func (c *Ctx) Extract(hi, lo int, a *Term) *Term {
	w := hi - lo + 1
	if lo == 0 && w == a.Sort.W {
		return a
	}
	if a.IsConst() && a.Sort.W <= 64 {
		return c.BVConst(a.U>>uint(lo), w)
	}
	// extract of zero_extend / sign_extend / concat that lies inside the low part
	if strings.HasPrefix(a.Op, "(_ zero_extend") || strings.HasPrefix(a.Op, "(_ sign_extend") {
		in := a.Args[0]
		if hi < in.Sort.W {
			return c.Extract(hi, lo, in)
		}
		if strings.HasPrefix(a.Op, "(_ zero_extend") && lo >= in.Sort.W {
			return c.BVConst(0, w)
		}
	}
	if a.Op == "concat" {
		lowW := a.Args[1].Sort.W
		if hi < lowW {
			return c.Extract(hi, lo, a.Args[1])
		}
		if lo >= lowW {
			return c.Extract(hi-lowW, lo-lowW, a.Args[0])
		}
	}
	return c.App(fmt.Sprintf("(_ extract %d %d)", hi, lo), BV(w), a)
}

func (c *Ctx) ZeroExt(a *Term, w int) *Term {
	if w == a.Sort.W {
		return a
	}
	if w < a.Sort.W {
		panic("zeroext narrower")
	}
	if a.IsConst() && w <= 64 {
		return c.BVConst(a.U, w)
	}
	return c.App(fmt.Sprintf("(_ zero_extend %d)", w-a.Sort.W), BV(w), a)
}

func (c *Ctx) SignExt(a *Term, w int) *Term {
	if w == a.Sort.W {
		return a
	}
	if w < a.Sort.W {
		panic("signext narrower")
	}
	if a.IsConst() && w <= 64 {
		return c.BVConst(uint64(sext(a.U, a.Sort.W)), w)
	}
	return c.App(fmt.Sprintf("(_ sign_extend %d)", w-a.Sort.W), BV(w), a)
}

func (c *Ctx) Concat(hi, lo *Term) *Term {
	w := hi.Sort.W + lo.Sort.W
	if hi.IsConst() && lo.IsConst() && w <= 64 {
		return c.BVConst(hi.U<<uint(lo.Sort.W)|lo.U, w)
	}
	return c.App("concat", BV(w), hi, lo)
}

// ---------- Int ----------

func (c *Ctx) intbin(op string, a, b *Term) *Term {
	if a.Sort.K != KInt || b.Sort.K != KInt {
		panic(op + ": not Int")
	}
	if a.IsConst() && b.IsConst() {
		r := new(big.Int)
		switch op {
		case "+":
			return c.IntConst(r.Add(a.Big, b.Big))
		case "-":
			return c.IntConst(r.Sub(a.Big, b.Big))
		case "*":
			return c.IntConst(r.Mul(a.Big, b.Big))
		case "div":
			if b.Big.Sign() != 0 {
				// SMT div: euclidean
				m := new(big.Int)
				r.DivMod(a.Big, b.Big, m)
				return c.IntConst(r)
			}
		case "mod":
			if b.Big.Sign() != 0 {
				q := new(big.Int)
				q.DivMod(a.Big, b.Big, r)
				return c.IntConst(r)
			}
		}
	}
	if op == "div" && b.IsConst() && b.Big.Sign() > 0 {
		// (m*A + K) div m = A + floor(K/m): exact for the Euclidean div with m > 0; keeps
		// floor(x + 0.5) of an integer-valued x a plain variable instead of a div term
		if q, ok := c.exactQuot(a, b.Big); ok {
			return q
		}
		if a.Op == "+" && len(a.Args) == 2 {
			for j := 0; j < 2; j++ {
				if k := a.Args[1-j]; k.IsConst() {
					if q, ok := c.exactQuot(a.Args[j], b.Big); ok {
						fl := new(big.Int).Div(k.Big, b.Big) // Euclidean = floor for positive divisor
						return c.IAdd(q, c.IntConst(fl))
					}
				}
			}
		}
	}
	switch op {
	case "+":
		if a.IsConst() && a.Big.Sign() == 0 {
			return b
		}
		if b.IsConst() && b.Big.Sign() == 0 {
			return a
		}
	case "-":
		if b.IsConst() && b.Big.Sign() == 0 {
			return a
		}
	case "*":
		if a.IsConst() && a.Big.IsInt64() && a.Big.Int64() == 1 {
			return b
		}
		if b.IsConst() && b.Big.IsInt64() && b.Big.Int64() == 1 {
			return a
		}
	}
	return c.App(op, Int, a, b)
}
// exactQuot returns t/m when t is syntactically a multiple of m.
func (c *Ctx) exactQuot(t *Term, m *big.Int) (*Term, bool) {
	switch {
	case t.IsConst():
		q, r := new(big.Int).DivMod(t.Big, m, new(big.Int))
		if r.Sign() == 0 {
			return c.IntConst(q), true
		}
	case t.Op == "*" && len(t.Args) == 2:
		for j := 0; j < 2; j++ {
			if k := t.Args[j]; k.IsConst() {
				q, r := new(big.Int).DivMod(k.Big, m, new(big.Int))
				if r.Sign() == 0 {
					return c.IMul(t.Args[1-j], c.IntConst(q)), true
				}
			}
		}
	case (t.Op == "+" || t.Op == "-") && len(t.Args) == 2:
		qa, ok1 := c.exactQuot(t.Args[0], m)
		qb, ok2 := c.exactQuot(t.Args[1], m)
		if ok1 && ok2 {
			return c.intbin(t.Op, qa, qb), true
		}
	}
	return nil, false
}

func (c *Ctx) ExactQuot(t *Term, m *big.Int) (*Term, bool) { return c.exactQuot(t, m) }
func (c *Ctx) IAdd(a, b *Term) *Term { return c.intbin("+", a, b) }
func (c *Ctx) ISub(a, b *Term) *Term { return c.intbin("-", a, b) }
func (c *Ctx) IMul(a, b *Term) *Term { return c.intbin("*", a, b) }
func (c *Ctx) IDiv(a, b *Term) *Term { return c.intbin("div", a, b) }
func (c *Ctx) IMod(a, b *Term) *Term { return c.intbin("mod", a, b) }
func (c *Ctx) INeg(a *Term) *Term    { return c.ISub(c.IntConst64(0), a) }

func (c *Ctx) icmp(op string, a, b *Term) *Term {
	if a.IsConst() && b.IsConst() {
		k := a.Big.Cmp(b.Big)
		switch op {
		case "<":
			return c.BoolConst(k < 0)
		case "<=":
			return c.BoolConst(k <= 0)
		}
	}
	if a == b {
		return c.BoolConst(op == "<=")
	}
	return c.App(op, Bool, a, b)
}
func (c *Ctx) ILt(a, b *Term) *Term { return c.icmp("<", a, b) }
func (c *Ctx) ILe(a, b *Term) *Term { return c.icmp("<=", a, b) }

// Int <-> BV
func (c *Ctx) Int2BV(a *Term, w int) *Term {
	if a.IsConst() && w <= 64 {
		m := new(big.Int).Lsh(big.NewInt(1), uint(w))
		r := new(big.Int).Mod(a.Big, m)
		return c.BVConst(r.Uint64(), w)
	}
	return c.App(fmt.Sprintf("(_ int2bv %d)", w), BV(w), a)
}
func (c *Ctx) BV2Nat(a *Term) *Term {
	if a.IsConst() && a.Sort.W <= 64 {
		return c.IntConst(new(big.Int).SetUint64(a.U))
	}
	return c.App("bv2nat", Int, a)
}
func (c *Ctx) BV2IntSigned(a *Term) *Term {
	w := a.Sort.W
	if a.IsConst() && w <= 64 {
		return c.IntConst64(sext(a.U, w))
	}
	n := c.BV2Nat(a)
	half := new(big.Int).Lsh(big.NewInt(1), uint(w-1))
	full := new(big.Int).Lsh(big.NewInt(1), uint(w))
	return c.Ite(c.ILt(n, c.IntConst(half)), n, c.ISub(n, c.IntConst(full)))
}

// ---------- FP ----------

const RNE = "RNE"

func (c *Ctx) FPFromBits(a *Term) *Term {
	var s Sort
	var op string
	if a.Sort.W == 64 {
		s, op = FP64, "(_ to_fp 11 53)"
	} else if a.Sort.W == 32 {
		s, op = FP32, "(_ to_fp 8 24)"
	} else {
		panic("FPFromBits width")
	}
	return c.App(op, s, a)
}

// FPOp builds (op RNE a b) for arithmetic.
func (c *Ctx) FPArith(op string, args ...*Term) *Term {
	rm := c.App("RNE", Sort{K: KRM})
	as := append([]*Term{rm}, args...)
	return c.App(op, args[0].Sort, as...)
}
func (c *Ctx) FPUn(op string, a *Term) *Term { return c.App(op, a.Sort, a) }
func (c *Ctx) FPCmp(op string, a, b *Term) *Term {
	return c.App(op, Bool, a, b)
}
func (c *Ctx) FPPred(op string, a *Term) *Term { return c.App(op, Bool, a) }
func (c *Ctx) FPConvFP(a *Term, to Sort) *Term {
	if a.Sort == to {
		return a
	}
	rm := c.App("RNE", Sort{K: KRM})
	op := "(_ to_fp 11 53)"
	if to.W == 32 {
		op = "(_ to_fp 8 24)"
	}
	return c.App(op, to, rm, a)
}
func (c *Ctx) FPFromSBV(a *Term, to Sort, signed bool) *Term {
	rm := c.App("RNE", Sort{K: KRM})
	op := "(_ to_fp 11 53)"
	if to.W == 32 {
		op = "(_ to_fp 8 24)"
	}
	if !signed {
		op = strings.Replace(op, "to_fp", "to_fp_unsigned", 1)
	}
	return c.App(op, to, rm, a)
}
func (c *Ctx) FPFromInt(a *Term, to Sort) *Term {
	rm := c.App("RNE", Sort{K: KRM})
	op := "(_ to_fp 11 53)"
	if to.W == 32 {
		op = "(_ to_fp 8 24)"
	}
	return c.App(op, to, rm, c.App("to_real", Sort{K: KReal}, a))
}
func (c *Ctx) FPToBV(a *Term, w int, signed bool) *Term {
	rm := c.App("RTZ", Sort{K: KRM})
	op := fmt.Sprintf("(_ fp.to_sbv %d)", w)
	if !signed {
		op = fmt.Sprintf("(_ fp.to_ubv %d)", w)
	}
	return c.App(op, BV(w), rm, a)
}
func (c *Ctx) FPRound(a *Term, mode string) *Term {
	rm := c.App(mode, Sort{K: KRM})
	return c.App("fp.roundToIntegral", a.Sort, rm, a)
}

// UF application: name must be declared via Solver.DeclareFun by emission (done lazily from Op prefix "uf:").
func (c *Ctx) UF(name string, ret Sort, args ...*Term) *Term {
	return c.App("uf:"+name, ret, args...)
}

// ---------- printing ----------

func bvLit(v uint64, w int) string {
	if w%4 == 0 {
		return fmt.Sprintf("#x%0*x", w/4, v)
	}
	return fmt.Sprintf("#b%0*b", w, v)
}

func (t *Term) leaf() string {
	switch t.Op {
	case "const":
		switch t.Sort.K {
		case KBool:
			if t.U == 1 {
				return "true"
			}
			return "false"
		case KBV:
			return bvLit(t.U, t.Sort.W)
		case KInt:
			if t.Big.Sign() < 0 {
				return "(- " + new(big.Int).Neg(t.Big).String() + ")"
			}
			return t.Big.String()
		}
	case "var":
		return t.Name
	case "RNE", "RTZ", "RTN", "RTP", "RNA":
		return t.Op
	}
	return ""
}

func (t *Term) ref() string {
	if l := t.leaf(); l != "" {
		return l
	}
	return "t" + strconv.Itoa(t.ID)
}

// String prints the term as a (possibly large) tree; for debugging and small terms.
func (t *Term) String() string {
	if l := t.leaf(); l != "" {
		return l
	}
	var sb strings.Builder
	sb.WriteByte('(')
	sb.WriteString(strings.TrimPrefix(t.Op, "uf:"))
	for _, a := range t.Args {
		sb.WriteByte(' ')
		if a.size > 200 {
			sb.WriteString("…")
		} else {
			sb.WriteString(a.String())
		}
	}
	sb.WriteByte(')')
	return sb.String()
}

func (t *Term) Size() int { return t.size }
