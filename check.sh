#!/bin/bash
# usage: check.sh <property-id> [quick|thorough]
# Rebuilds the encoding from /repo's working tree (go/packages + go/ssa inside gosx) on every run.
cd "$(dirname "$0")" || exit 2
export GOFLAGS=-mod=mod GOPROXY=off VERIF_DIR="$PWD"
# /repo needs go1.24.11: let the default go switch to the cached toolchain (GOSUMDB=off breaks that switch)
export GOTOOLCHAIN=auto; unset GOSUMDB
id="$1"; tier="${2:-${VERIF_TIER:-quick}}"
if [ ! -x bin/gosx ] || [ -n "$(find engine -name '*.go' -newer bin/gosx 2>/dev/null | head -1)" ]; then
  mkdir -p bin && (cd engine && go build -o ../bin/gosx ./cmd/gosx) || { echo "cannot build gosx"; exit 2; }
fi
# C14 harness cases are generated from the generated TL code of the tree being checked
[ "$id" = C14 ] && { python3 tools/gen_c14.py >/dev/null || { echo "cannot generate C14 harness"; exit 2; }; }
lim=3000; [ "$tier" = thorough ] && lim=14000
if [ $# -ge 2 ]; then shift 2; else shift $#; fi
timeout -k 10 $lim ./bin/gosx check -tier "$tier" "$@" "$id"
rc=$?
# solver/compiler processes of an interrupted run must not outlive the check
exit $rc
