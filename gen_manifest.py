#!/usr/bin/env python3
"""Regenerates MANIFEST.json from checks/*.json and na.json (run by hand after adding a check)."""
import json, glob, os
os.chdir(os.path.dirname(os.path.abspath(__file__)))
props = [json.loads(l) for l in open('properties.jsonl')]
na = json.load(open('na.json'))
checks = []
for p in props:
    f = 'checks/%s.json' % p['id']
    if not os.path.exists(f):
        continue
    spec = json.load(open(f))
    hs = [h for g in spec['groups'] for h in g['harnesses']]
    what = '; '.join('%s [%s]' % (h['what'], h['tier']) for h in hs)
    checks.append({
        'property_id': p['id'],
        'quick_cmd': './check.sh %s quick' % p['id'],
        'thorough_cmd': './check.sh %s thorough' % p['id'],
        'evidence_file': 'evidence/%s.json' % p['id'],
        'replay_cmd_template': './bin/gosx check -replay {path} %s' % p['id'],
        'engine': 'gosx',
        'technique': 'bounded symbolic execution of go/ssa + SMT (z3)',
        'level_claimed': {
            'category': 'model_checking',
            'text': 'Bounded symbolic execution of the real functions (go/ssa of /repo\'s working tree) with every assertion discharged by z3 over all inputs within the stated bounds; a counterexample is replayed natively against the real build before it is reported. Decided here: ' + what + '. Outside the claim: ' + '; '.join(spec.get('outside_claim', [])),
            'design_ref': 'DESIGN.md section 6 (%s) and section 11 (what was built)' % p['id'],
        },
        'level_note': 'Trusted: the gosx SSA interpreter and its SMT encoding (validated per run by replaying witness inputs of passing paths natively), z3, go/ssa. ' + ' '.join(spec.get('assumptions', [])),
    })
have = {c['property_id'] for c in checks}
m = {
    'version': 1,
    'setup_cmd': 'cd engine && env -u GOSUMDB GOTOOLCHAIN=auto GOFLAGS=-mod=mod GOPROXY=off go build -o ../bin/gosx ./cmd/gosx',
    'hooks': {
        'guard': 'verif',
        'enable': 'harness files carry //go:build verif and reach the loader (go/packages Overlay) and the compiler (go test -overlay, -tags verif) as overlays only; there are no hook commits in /repo',
        'baseline_off_cmd': 'cd /repo && go test -mod=mod -json -vet=off -count=1 -timeout 25m ./...',
        'source_commits': [],
        'add_only': True,
    },
    'engines': [{'name': 'gosx', 'path': 'engine', 'serves_properties': sorted(have),
                 'kind_free_text': 'own bounded symbolic executor for go/ssa (x/tools v0.29.0) emitting SMT-LIB2 to a persistent z3 process per worker; native replay through go test -overlay'}],
    'checks': checks,
    'not_applicable': [{'property_id': p['id'], 'reason': na[p['id']]} for p in props if p['id'] not in have],
    'notes': 'Every check regenerates its encoding from /repo on each run. Exit 0 = all assertions unsat-proved within bounds; exit 1 = VIOLATION (natively confirmed); exit 3 = inconclusive (solver unknown, budget, unsupported construct) - never reported as a pass.',
}
json.dump(m, open('MANIFEST.json', 'w'), indent=1)
print('checks:', sorted(have), 'na:', len(m['not_applicable']))
